
} // verus!
fn main() {}
