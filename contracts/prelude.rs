// GENERATED FILE -- do not edit.  Built by /verif/engine from /repo sources + /verif/contracts.
#![feature(allocator_api)]
#![allow(unused_imports, unused_variables, unused_mut, dead_code, non_snake_case, unused_parens, unused_braces)]
use std::cmp::{max, min, Ordering};
use std::mem::swap;
use std::fmt;
use std::io::Write;
use std::collections::HashMap;
use vstd::prelude::*;
use vstd::arithmetic::mul::*;
use vstd::arithmetic::div_mod::*;
use vstd::arithmetic::power2::*;
use vstd::bits::*;
use vstd::std_specs::cmp::{PartialEqSpec, PartialEqSpecImpl, PartialOrdSpec, PartialOrdSpecImpl, OrdSpec};
use vstd::std_specs::ops::*;
verus! {

global size_of usize == 8;   // 64-bit target (stated assumption)

pub assume_specification<'a>[<String as core::convert::From<&'a str>>::from](s: &str) -> (r: String)
    ensures r@ == s@;

pub assume_specification<T, A: std::alloc::Allocator>[<Vec<T, A> as core::convert::AsMut<Vec<T, A>>>::as_mut](v: &mut Vec<T, A>) -> (r: &mut Vec<T, A>)
    ensures *r == *old(v), *final(v) == *final(r);

pub assume_specification<T> [<[T]>::reverse] (s: &mut [T])
    ensures final(s)@ == old(s)@.reverse();

// ---- assumed specifications of std items that vstd does not cover (listed in evidence) ----
pub assume_specification<'a, T: Copy> [std::option::Option::<&'a T>::copied] (o: std::option::Option<&'a T>) -> (r: std::option::Option<T>)
    ensures r == (match o { Some(x) => Some(*x), None => None::<T> });
pub assume_specification<T: std::cmp::Ord>[std::cmp::max](a: T, b: T) -> (r: T)
    ensures T::obeys_cmp_spec() ==> r == (if a.cmp_spec(&b) == Ordering::Greater { a } else { b });
pub assume_specification<T: std::cmp::Ord>[std::cmp::min](a: T, b: T) -> (r: T)
    ensures T::obeys_cmp_spec() ==> r == (if b.cmp_spec(&a) == Ordering::Less { b } else { a });


/// Helper that stands for `v.iter().map(|&x| x as u32).collect()` (rewrite R3): element-wise truncating cast.
fn narrow_u64(v: &Vec<u64>) -> (r: Vec<u32>)
    ensures
        r@.len() == v@.len(),
        forall|k: int| 0 <= k < v@.len() ==> r@[k] == (#[trigger] v@[k]) as u32,
{
    let mut r: Vec<u32> = Vec::new();
    let mut k: usize = 0;
    while k < v.len()
        invariant
            k <= v@.len(),
            r@.len() == k,
            forall|q: int| 0 <= q < k ==> r@[q] == (#[trigger] v@[q]) as u32,
        decreases v@.len() - k,
    {
        r.push(#[verifier::truncate] (v[k] as u32));
        k += 1;
    }
    r
}

