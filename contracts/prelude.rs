// GENERATED FILE -- do not edit.  Built by /verif/engine from /repo sources + /verif/contracts.
#![allow(unused_imports, unused_variables, unused_mut, dead_code, non_snake_case, unused_parens, unused_braces)]
use std::cmp::{max, min, Ordering};
use std::mem::swap;
use vstd::prelude::*;
use vstd::arithmetic::mul::*;
use vstd::arithmetic::div_mod::*;
use vstd::std_specs::cmp::{PartialEqSpec, PartialEqSpecImpl, PartialOrdSpec, PartialOrdSpecImpl, OrdSpec};
use vstd::std_specs::ops::*;
verus! {

// ---- assumed specifications of std items that vstd does not cover (listed in evidence) ----
pub assume_specification<T: std::cmp::Ord>[std::cmp::max](a: T, b: T) -> (r: T)
    ensures T::obeys_cmp_spec() ==> r == (if a.cmp_spec(&b) == Ordering::Greater { a } else { b });
pub assume_specification<T: std::cmp::Ord>[std::cmp::min](a: T, b: T) -> (r: T)
    ensures T::obeys_cmp_spec() ==> r == (if b.cmp_spec(&a) == Ordering::Less { b } else { a });

