//! Bounded harnesses (Kani/CBMC) over the public API of the current /repo tree.
//! Bound: operands of ONE 32-bit limb (fully symbolic limb and sign); oracle = i128 arithmetic.
//! These are a bounded second opinion that does not depend on the loop invariants of the Verus proofs;
//! they are never counted as proof.
#![allow(dead_code)]
#[cfg(kani)]
mod harness {
    use hyeong::number::big_number::BigNum;
    use hyeong::number::num::Num;
    use std::cmp::Ordering;

    fn mk(limb: u32, neg: bool) -> BigNum {
        let mut b = BigNum::from_vec(vec![limb]);
        if neg {
            b.minus();
        }
        b
    }

    fn of_i128(v: i128) -> BigNum {
        let m = v.unsigned_abs();
        let mut b = BigNum::from_vec(vec![m as u32, (m >> 32) as u32, (m >> 64) as u32]);
        if v < 0 {
            b.minus();
        }
        b
    }

    fn val(limb: u32, neg: bool) -> i128 {
        if neg {
            -(limb as i128)
        } else {
            limb as i128
        }
    }

    #[kani::proof]
    #[kani::unwind(10)]
    fn big_add_1limb() {
        let (a, an, b, bn): (u32, bool, u32, bool) = (kani::any(), kani::any(), kani::any(), kani::any());
        let r = &mk(a, an) + &mk(b, bn);
        assert!(r == of_i128(val(a, an) + val(b, bn)));
    }

    #[kani::proof]
    #[kani::unwind(10)]
    fn big_sub_1limb() {
        let (a, an, b, bn): (u32, bool, u32, bool) = (kani::any(), kani::any(), kani::any(), kani::any());
        let r = &mk(a, an) - &mk(b, bn);
        assert!(r == of_i128(val(a, an) - val(b, bn)));
    }

    #[kani::proof]
    #[kani::unwind(10)]
    fn big_mul_1limb() {
        let (a, an, b, bn): (u32, bool, u32, bool) = (kani::any(), kani::any(), kani::any(), kani::any());
        let r = &mk(a, an) * &mk(b, bn);
        assert!(r == of_i128(val(a, an) * val(b, bn)));
    }

    #[kani::proof]
    #[kani::unwind(10)]
    fn big_cmp_eq_neg_1limb() {
        let (a, an, b, bn): (u32, bool, u32, bool) = (kani::any(), kani::any(), kani::any(), kani::any());
        let (x, y) = (mk(a, an), mk(b, bn));
        let (ia, ib) = (val(a, an), val(b, bn));
        assert!((x == y) == (ia == ib));
        assert!(x.partial_cmp(&y) == Some(ia.cmp(&ib)));
        assert!(-&x == of_i128(-ia));
    }

    #[kani::proof]
    #[kani::unwind(10)]
    fn big_new_isize() {
        let n: isize = kani::any();
        assert!(BigNum::new(n) == of_i128(n as i128));
    }

    // Harnesses through Num (gcd -> rem -> bit-serial div_core) and through BigNum division exceed 16 GB / 10 min of
    // CBMC in this sandbox (measured) and are not part of the tier.
}
