[tool-version] Z3 4.16.0
[mk-app] #1 true
[mk-app] #2 false
[mk-app] #1 true
[mk-app] #2 false
[mk-app] #3 pi
[mk-app] #4 euler
[mk-var] datatype#0 0
[mk-var] datatype#1 1
[mk-app] datatype#2 insert datatype#0 datatype#1
[mk-app] datatype#3 pattern datatype#2
[mk-app] datatype#4 head datatype#2
[mk-app] datatype#5 = datatype#0 datatype#4
[mk-quant] datatype#6 constructor_accessor_axiom 2 datatype#3 datatype#5
[attach-var-names] datatype#6 (;k!0) (;List)
[mk-app] datatype#7 tail datatype#2
[mk-app] datatype#8 = datatype#1 datatype#7
[mk-quant] datatype#9 constructor_accessor_axiom 2 datatype#3 datatype#8
[attach-var-names] datatype#9 (;k!0) (;List)
[mk-app] #5 bv
[attach-meaning] #5 bv #b0
[mk-var] #6 0
[mk-var] #7 1
[mk-var] #8 2
[mk-var] #9 3
[mk-var] #10 4
[mk-var] #11 5
[mk-var] #12 6
[mk-var] #13 7
[mk-var] #14 8
[mk-var] #15 9
[mk-var] #16 10
[mk-var] #17 11
[mk-var] #18 12
[mk-var] #19 13
[mk-var] #20 14
[mk-app] #21 + #14 #12
[attach-enode] #1 0
[attach-enode] #2 0
[mk-app] #22 ac@
[mk-app] #23 bv
[attach-meaning] #23 bv #b111111111111111111111111111111111111111111111111111111111111111
[mk-app] #24 zero_extend #23
[mk-app] #25 bvule #22 #24
[attach-meaning] #5 bv #b0
[mk-app] #26 concat #5 #23
[inst-discovered] theory-solving 0x0 bv# ; #24
[mk-app] #27 = #24 #26
[instance] 0x0 #27
[attach-enode] #27 0
[end-of-instance]
[mk-app] #27 bv
[attach-meaning] #27 bv #x7fffffffffffffff
[inst-discovered] theory-solving 0x0 bv# ; #26
[mk-app] #28 = #26 #27
[instance] 0x0 #28
[attach-enode] #28 0
[end-of-instance]
[mk-app] #28 extract #22
[attach-meaning] #5 bv #b0
[mk-app] #29 extract #22
[mk-app] #30 extract #27
[mk-app] #31 bvule #29 #30
[mk-app] #32 = #28 #5
[mk-app] #33 and #32 #31
[mk-app] #34 bvule #22 #27
[inst-discovered] theory-solving 0x0 bv# ; #34
[mk-app] #35 = #34 #33
[instance] 0x0 #35
[attach-enode] #35 0
[end-of-instance]
[attach-meaning] #23 bv #b111111111111111111111111111111111111111111111111111111111111111
[inst-discovered] theory-solving 0x0 bv# ; #30
[mk-app] #34 = #30 #23
[instance] 0x0 #34
[attach-enode] #34 0
[end-of-instance]
[mk-app] #34 bvule #29 #23
[inst-discovered] theory-solving 0x0 bv# ; #34
[mk-app] #35 = #34 #1
[instance] 0x0 #35
[attach-enode] #35 0
[end-of-instance]
[mk-app] #34 and #32 #1
[inst-discovered] theory-solving 0x0 basic# ; #34
[mk-app] #35 = #34 #32
[instance] 0x0 #35
[attach-enode] #35 0
[end-of-instance]
[mk-app] #34 %%location_label%%0
[mk-app] #35 zero_extend #22
[mk-app] #36 bv
[attach-meaning] #36 bv #b100
[mk-app] #37 zero_extend #36
[mk-app] #38 bvshl #35 #37
[mk-app] #39 zero_extend #22
[mk-app] #40 bv
[attach-meaning] #40 bv #b10000
[mk-app] #41 zero_extend #40
[mk-app] #42 bvmul #39 #41
[mk-app] #43 zero_extend #42
[mk-app] #44 = #38 #43
[mk-app] #45 => #34 #44
[mk-app] #46 not #45
[mk-app] #47 bv
[attach-meaning] #47 bv #x0000000000000000
[mk-app] #48 concat #47 #22
[inst-discovered] theory-solving 0x0 bv# ; #35
[mk-app] #49 = #35 #48
[instance] 0x0 #49
[attach-enode] #49 0
[end-of-instance]
[mk-app] #49 bv
[attach-meaning] #49 bv #b00000000000000000000000000000000000000000000000000000000000000000000000000000000000000000000000000000000000000000000000000000
[mk-app] #50 concat #49 #36
[inst-discovered] theory-solving 0x0 bv# ; #37
[mk-app] #51 = #37 #50
[instance] 0x0 #51
[attach-enode] #51 0
[end-of-instance]
[mk-app] #51 bv
[attach-meaning] #51 bv #x00000000000000000000000000000004
[inst-discovered] theory-solving 0x0 bv# ; #50
[mk-app] #52 = #50 #51
[instance] 0x0 #52
[attach-enode] #52 0
[end-of-instance]
[mk-app] #52 extract #48
[mk-app] #53 bv
[attach-meaning] #53 bv #x0
[mk-app] #54 concat #52 #53
[mk-app] #55 bvshl #48 #51
[inst-discovered] theory-solving 0x0 bv# ; #55
[mk-app] #56 = #55 #54
[instance] 0x0 #56
[attach-enode] #56 0
[end-of-instance]
[mk-app] #55 extract #47
[mk-app] #56 concat #55 #22
[inst-discovered] theory-solving 0x0 bv# ; #52
[mk-app] #57 = #52 #56
[instance] 0x0 #57
[attach-enode] #57 0
[end-of-instance]
[mk-app] #57 bv
[attach-meaning] #57 bv #x000000000000000
[inst-discovered] theory-solving 0x0 bv# ; #55
[mk-app] #58 = #55 #57
[instance] 0x0 #58
[attach-enode] #58 0
[end-of-instance]
[mk-app] #58 concat #57 #22
[mk-app] #59 concat #57 #22 #53
[mk-app] #60 concat #58 #53
[inst-discovered] theory-solving 0x0 bv# ; #60
[mk-app] #61 = #60 #59
[instance] 0x0 #61
[attach-enode] #61 0
[end-of-instance]
[mk-app] #60 bv
[attach-meaning] #60 bv #b00000
[mk-app] #61 concat #60 #22
[inst-discovered] theory-solving 0x0 bv# ; #39
[mk-app] #62 = #39 #61
[instance] 0x0 #62
[attach-enode] #62 0
[end-of-instance]
[attach-meaning] #47 bv #x0000000000000000
[mk-app] #62 concat #47 #40
[inst-discovered] theory-solving 0x0 bv# ; #41
[mk-app] #63 = #41 #62
[instance] 0x0 #63
[attach-enode] #63 0
[end-of-instance]
[mk-app] #63 bv
[attach-meaning] #63 bv #b000000000000000000000000000000000000000000000000000000000000000010000
[inst-discovered] theory-solving 0x0 bv# ; #62
[mk-app] #64 = #62 #63
[instance] 0x0 #64
[attach-enode] #64 0
[end-of-instance]
[attach-meaning] #63 bv #b000000000000000000000000000000000000000000000000000000000000000010000
[mk-app] #64 bvmul #63 #61
[mk-app] #65 bvmul #61 #63
[inst-discovered] theory-solving 0x0 bv# ; #65
[mk-app] #66 = #65 #64
[instance] 0x0 #66
[attach-enode] #66 0
[end-of-instance]
[mk-app] #65 bv
[attach-meaning] #65 bv #b00000000000000000000000000000000000000000000000000000000000
[mk-app] #66 concat #65 #64
[mk-app] #67 zero_extend #64
[inst-discovered] theory-solving 0x0 bv# ; #67
[mk-app] #68 = #67 #66
[instance] 0x0 #68
[attach-enode] #68 0
[end-of-instance]
[mk-app] #67 extract #64
[mk-app] #68 = #53 #67
[mk-app] #69 extract #64
[mk-app] #70 = #22 #69
[mk-app] #71 extract #64
[mk-app] #72 extract #57
[mk-app] #73 = #72 #71
[mk-app] #74 extract #57
[mk-app] #75 = #74 #65
[mk-app] #76 and #68 #70 #73 #75
[mk-app] #77 = #59 #66
[inst-discovered] theory-solving 0x0 bv# ; #77
[mk-app] #78 = #77 #76
[instance] 0x0 #78
[attach-enode] #78 0
[end-of-instance]
[mk-app] #77 extract #63
[mk-app] #78 extract #61
[mk-app] #79 bvmul #77 #78
[inst-discovered] theory-solving 0x0 bv# ; #67
[mk-app] #80 = #67 #79
[instance] 0x0 #80
[attach-enode] #80 0
[end-of-instance]
[attach-meaning] #53 bv #x0
[inst-discovered] theory-solving 0x0 bv# ; #77
[mk-app] #80 = #77 #53
[instance] 0x0 #80
[attach-enode] #80 0
[end-of-instance]
[mk-app] #80 extract #22
[inst-discovered] theory-solving 0x0 bv# ; #78
[mk-app] #81 = #78 #80
[instance] 0x0 #81
[attach-enode] #81 0
[end-of-instance]
[attach-meaning] #53 bv #x0
[mk-app] #81 bvmul #53 #80
[inst-discovered] theory-solving 0x0 bv# ; #81
[mk-app] #82 = #81 #53
[instance] 0x0 #82
[attach-enode] #82 0
[end-of-instance]
[mk-app] #81 = #53 #53
[inst-discovered] theory-solving 0x0 bv# ; #81
[mk-app] #82 = #81 #1
[instance] 0x0 #82
[attach-enode] #82 0
[end-of-instance]
[attach-meaning] #5 bv #b0
[inst-discovered] theory-solving 0x0 bv# ; #72
[mk-app] #81 = #72 #5
[instance] 0x0 #81
[attach-enode] #81 0
[end-of-instance]
[mk-app] #81 = #71 #5
[mk-app] #82 = #5 #71
[inst-discovered] theory-solving 0x0 bv# ; #82
[mk-app] #83 = #82 #81
[instance] 0x0 #83
[attach-enode] #83 0
[end-of-instance]
[attach-meaning] #65 bv #b00000000000000000000000000000000000000000000000000000000000
[inst-discovered] theory-solving 0x0 bv# ; #74
[instance] 0x0 #75
[end-of-instance]
[mk-app] #82 = #65 #65
[inst-discovered] theory-solving 0x0 bv# ; #82
[mk-app] #83 = #82 #1
[instance] 0x0 #83
[attach-enode] #83 0
[end-of-instance]
[mk-app] #82 and #70 #81
[mk-app] #83 and #1 #70 #81 #1
[inst-discovered] theory-solving 0x0 basic# ; #83
[mk-app] #84 = #83 #82
[instance] 0x0 #84
[attach-enode] #84 0
[end-of-instance]
[mk-app] #83 not #34
[mk-app] #84 or #83 #82
[mk-app] #85 => #34 #82
[inst-discovered] theory-solving 0x0 basic# ; #85
[mk-app] #86 = #85 #84
[instance] 0x0 #86
[attach-enode] #86 0
[end-of-instance]
[mk-app] #85 not #84
[mk-app] #86 not #82
[attach-meaning] #5 bv #b0
[inst-discovered] theory-solving 0x0 bv# ; #24
[mk-app] #83 = #24 #26
[instance] 0x0 #83
[attach-enode] #83 0
[end-of-instance]
[attach-meaning] #27 bv #x7fffffffffffffff
[inst-discovered] theory-solving 0x0 bv# ; #26
[mk-app] #83 = #26 #27
[instance] 0x0 #83
[attach-enode] #83 0
[end-of-instance]
[attach-meaning] #5 bv #b0
[mk-app] #83 bvule #22 #27
[inst-discovered] theory-solving 0x0 bv# ; #83
[mk-app] #84 = #83 #33
[instance] 0x0 #84
[attach-enode] #84 0
[end-of-instance]
[attach-meaning] #23 bv #b111111111111111111111111111111111111111111111111111111111111111
[inst-discovered] theory-solving 0x0 bv# ; #30
[mk-app] #83 = #30 #23
[instance] 0x0 #83
[attach-enode] #83 0
[end-of-instance]
[mk-app] #83 bvule #29 #23
[inst-discovered] theory-solving 0x0 bv# ; #83
[mk-app] #84 = #83 #1
[instance] 0x0 #84
[attach-enode] #84 0
[end-of-instance]
[mk-app] #83 and #32 #1
[inst-discovered] theory-solving 0x0 basic# ; #83
[mk-app] #84 = #83 #32
[instance] 0x0 #84
[attach-enode] #84 0
[end-of-instance]
[attach-meaning] #47 bv #x0000000000000000
[inst-discovered] theory-solving 0x0 bv# ; #35
[mk-app] #83 = #35 #48
[instance] 0x0 #83
[attach-enode] #83 0
[end-of-instance]
[attach-meaning] #49 bv #b00000000000000000000000000000000000000000000000000000000000000000000000000000000000000000000000000000000000000000000000000000
[inst-discovered] theory-solving 0x0 bv# ; #37
[mk-app] #83 = #37 #50
[instance] 0x0 #83
[attach-enode] #83 0
[end-of-instance]
[attach-meaning] #51 bv #x00000000000000000000000000000004
[inst-discovered] theory-solving 0x0 bv# ; #50
[mk-app] #83 = #50 #51
[instance] 0x0 #83
[attach-enode] #83 0
[end-of-instance]
[attach-meaning] #53 bv #x0
[mk-app] #83 bvshl #48 #51
[inst-discovered] theory-solving 0x0 bv# ; #83
[mk-app] #84 = #83 #54
[instance] 0x0 #84
[attach-enode] #84 0
[end-of-instance]
[inst-discovered] theory-solving 0x0 bv# ; #52
[mk-app] #83 = #52 #56
[instance] 0x0 #83
[attach-enode] #83 0
[end-of-instance]
[attach-meaning] #57 bv #x000000000000000
[inst-discovered] theory-solving 0x0 bv# ; #55
[mk-app] #83 = #55 #57
[instance] 0x0 #83
[attach-enode] #83 0
[end-of-instance]
[mk-app] #83 concat #58 #53
[inst-discovered] theory-solving 0x0 bv# ; #83
[mk-app] #84 = #83 #59
[instance] 0x0 #84
[attach-enode] #84 0
[end-of-instance]
[attach-meaning] #60 bv #b00000
[inst-discovered] theory-solving 0x0 bv# ; #39
[mk-app] #83 = #39 #61
[instance] 0x0 #83
[attach-enode] #83 0
[end-of-instance]
[attach-meaning] #47 bv #x0000000000000000
[inst-discovered] theory-solving 0x0 bv# ; #41
[mk-app] #83 = #41 #62
[instance] 0x0 #83
[attach-enode] #83 0
[end-of-instance]
[attach-meaning] #63 bv #b000000000000000000000000000000000000000000000000000000000000000010000
[inst-discovered] theory-solving 0x0 bv# ; #62
[mk-app] #83 = #62 #63
[instance] 0x0 #83
[attach-enode] #83 0
[end-of-instance]
[attach-meaning] #63 bv #b000000000000000000000000000000000000000000000000000000000000000010000
[mk-app] #83 bvmul #61 #63
[inst-discovered] theory-solving 0x0 bv# ; #83
[mk-app] #84 = #83 #64
[instance] 0x0 #84
[attach-enode] #84 0
[end-of-instance]
[attach-meaning] #65 bv #b00000000000000000000000000000000000000000000000000000000000
[mk-app] #83 zero_extend #64
[inst-discovered] theory-solving 0x0 bv# ; #83
[mk-app] #84 = #83 #66
[instance] 0x0 #84
[attach-enode] #84 0
[end-of-instance]
[mk-app] #83 = #59 #66
[inst-discovered] theory-solving 0x0 bv# ; #83
[mk-app] #84 = #83 #76
[instance] 0x0 #84
[attach-enode] #84 0
[end-of-instance]
[inst-discovered] theory-solving 0x0 bv# ; #67
[mk-app] #83 = #67 #79
[instance] 0x0 #83
[attach-enode] #83 0
[end-of-instance]
[attach-meaning] #53 bv #x0
[inst-discovered] theory-solving 0x0 bv# ; #77
[mk-app] #83 = #77 #53
[instance] 0x0 #83
[attach-enode] #83 0
[end-of-instance]
[inst-discovered] theory-solving 0x0 bv# ; #78
[mk-app] #83 = #78 #80
[instance] 0x0 #83
[attach-enode] #83 0
[end-of-instance]
[attach-meaning] #53 bv #x0
[mk-app] #83 bvmul #53 #80
[inst-discovered] theory-solving 0x0 bv# ; #83
[mk-app] #84 = #83 #53
[instance] 0x0 #84
[attach-enode] #84 0
[end-of-instance]
[mk-app] #83 = #53 #53
[inst-discovered] theory-solving 0x0 bv# ; #83
[mk-app] #84 = #83 #1
[instance] 0x0 #84
[attach-enode] #84 0
[end-of-instance]
[attach-meaning] #5 bv #b0
[inst-discovered] theory-solving 0x0 bv# ; #72
[mk-app] #83 = #72 #5
[instance] 0x0 #83
[attach-enode] #83 0
[end-of-instance]
[mk-app] #83 = #5 #71
[inst-discovered] theory-solving 0x0 bv# ; #83
[mk-app] #84 = #83 #81
[instance] 0x0 #84
[attach-enode] #84 0
[end-of-instance]
[attach-meaning] #65 bv #b00000000000000000000000000000000000000000000000000000000000
[inst-discovered] theory-solving 0x0 bv# ; #74
[instance] 0x0 #75
[end-of-instance]
[mk-app] #83 = #65 #65
[inst-discovered] theory-solving 0x0 bv# ; #83
[mk-app] #84 = #83 #1
[instance] 0x0 #84
[attach-enode] #84 0
[end-of-instance]
[mk-app] #83 and #1 #70 #81 #1
[inst-discovered] theory-solving 0x0 basic# ; #83
[mk-app] #84 = #83 #82
[instance] 0x0 #84
[attach-enode] #84 0
[end-of-instance]
[mk-app] #83 not #34
[mk-app] #84 or #83 #82
[mk-app] #85 => #34 #82
[inst-discovered] theory-solving 0x0 basic# ; #85
[mk-app] #87 = #85 #84
[instance] 0x0 #87
[attach-enode] #87 0
[end-of-instance]
[mk-app] #85 not #84
[mk-app] #83 bv
[attach-meaning] #83 bv #b1
[attach-meaning] #5 bv #b0
[mk-app] #84 not #70
[mk-app] #85 not #81
[mk-app] #87 or #84 #85
[mk-app] #88 not #87
[inst-discovered] theory-solving 0x0 basic# ; #82
[mk-app] #89 = #82 #88
[instance] 0x0 #89
[attach-enode] #89 0
[end-of-instance]
[mk-app] #89 not #88
[inst-discovered] theory-solving 0x0 basic# ; #89
[mk-app] #90 = #89 #87
[instance] 0x0 #90
[attach-enode] #90 0
[end-of-instance]
[inst-discovered] theory-solving 0x0 basic# ; #87
[mk-app] #88 = #87 #87
[instance] 0x0 #88
[attach-enode] #88 0
[end-of-instance]
[inst-discovered] theory-solving 0x0 basic# ; #87
[mk-app] #88 = #87 #87
[instance] 0x0 #88
[attach-enode] #88 0
[end-of-instance]
[inst-discovered] theory-solving 0x0 basic# ; #87
[mk-app] #88 = #87 #87
[instance] 0x0 #88
[attach-enode] #88 0
[end-of-instance]
[attach-meaning] #83 bv #b1
[attach-meaning] #5 bv #b0
[mk-app] #88 k!0
[mk-app] #89 k!1
[mk-app] #90 k!2
[mk-app] #91 k!3
[mk-app] #92 k!4
[mk-app] #93 k!5
[mk-app] #94 k!6
[mk-app] #95 k!7
[mk-app] #96 k!8
[mk-app] #97 k!9
[mk-app] #98 k!10
[mk-app] #99 k!11
[mk-app] #100 k!12
[mk-app] #101 k!13
[mk-app] #102 k!14
[mk-app] #103 k!15
[mk-app] #104 k!16
[mk-app] #105 k!17
[mk-app] #106 k!18
[mk-app] #107 k!19
[mk-app] #108 k!20
[mk-app] #109 k!21
[mk-app] #110 k!22
[mk-app] #111 k!23
[mk-app] #112 k!24
[mk-app] #113 k!25
[mk-app] #114 k!26
[mk-app] #115 k!27
[mk-app] #116 k!28
[mk-app] #117 k!29
[mk-app] #118 k!30
[mk-app] #119 k!31
[mk-app] #120 k!32
[mk-app] #121 k!33
[mk-app] #122 k!34
[mk-app] #123 k!35
[mk-app] #124 k!36
[mk-app] #125 k!37
[mk-app] #126 k!38
[mk-app] #127 k!39
[mk-app] #128 k!40
[mk-app] #129 k!41
[mk-app] #130 k!42
[mk-app] #131 k!43
[mk-app] #132 k!44
[mk-app] #133 k!45
[mk-app] #134 k!46
[mk-app] #135 k!47
[mk-app] #136 k!48
[mk-app] #137 k!49
[mk-app] #138 k!50
[mk-app] #139 k!51
[mk-app] #140 k!52
[mk-app] #141 k!53
[mk-app] #142 k!54
[mk-app] #143 k!55
[mk-app] #144 k!56
[mk-app] #145 k!57
[mk-app] #146 k!58
[mk-app] #147 k!59
[mk-app] #148 k!60
[mk-app] #149 k!61
[mk-app] #150 k!62
[mk-app] #151 k!63
[mk-app] #152 mkbv #88 #89 #90 #91 #92 #93 #94 #95 #96 #97 #98 #99 #100 #101 #102 #103 #104 #105 #106 #107 #108 #109 #110 #111 #112 #113 #114 #115 #116 #117 #118 #119 #120 #121 #122 #123 #124 #125 #126 #127 #128 #129 #130 #131 #132 #133 #134 #135 #136 #137 #138 #139 #140 #141 #142 #143 #144 #145 #146 #147 #148 #149 #150 #151
[mk-app] #153 mkbv #151
[mk-app] #154 mkbv #2
[mk-app] #155 not #151
[mk-app] #154 mkbv #2 #2 #2 #2 #1 #2 #2 #2 #2 #2 #2 #2 #2 #2 #2 #2 #2 #2 #2 #2 #2 #2 #2 #2 #2 #2 #2 #2 #2 #2 #2 #2 #2 #2 #2 #2 #2 #2 #2 #2 #2 #2 #2 #2 #2 #2 #2 #2 #2 #2 #2 #2 #2 #2 #2 #2 #2 #2 #2 #2 #2 #2 #2 #2 #2 #2 #2 #2 #2
[mk-app] #153 mkbv #2 #2 #2 #2 #2
[mk-app] #156 mkbv #88 #89 #90 #91 #92 #93 #94 #95 #96 #97 #98 #99 #100 #101 #102 #103 #104 #105 #106 #107 #108 #109 #110 #111 #112 #113 #114 #115 #116 #117 #118 #119 #120 #121 #122 #123 #124 #125 #126 #127 #128 #129 #130 #131 #132 #133 #134 #135 #136 #137 #138 #139 #140 #141 #142 #143 #144 #145 #146 #147 #148 #149 #150 #151 #2 #2 #2 #2 #2
[mk-app] #153 not #88
[mk-app] #153 not #88
[mk-app] #153 not #89
[mk-app] #153 not #88
[mk-app] #153 not #89
[mk-app] #153 not #90
[mk-app] #153 not #88
[mk-app] #153 not #89
[mk-app] #153 not #90
[mk-app] #153 not #91
[mk-app] #153 not #88
[mk-app] #153 not #89
[mk-app] #153 not #88
[mk-app] #153 not #88
[mk-app] #153 not #90
[mk-app] #153 not #88
[mk-app] #153 not #88
[mk-app] #153 not #88
[mk-app] #153 not #91
[mk-app] #153 not #88
[mk-app] #153 not #88
[mk-app] #153 not #88
[mk-app] #153 not #92
[mk-app] #153 not #88
[mk-app] #153 not #88
[mk-app] #153 not #88
[mk-app] #153 not #88
[mk-app] #153 not #89
[mk-app] #153 not #89
[mk-app] #153 not #90
[mk-app] #153 not #89
[mk-app] #153 not #89
[mk-app] #153 not #89
[mk-app] #153 not #91
[mk-app] #153 not #89
[mk-app] #153 not #89
[mk-app] #153 not #89
[mk-app] #153 not #92
[mk-app] #153 not #89
[mk-app] #153 not #89
[mk-app] #153 not #89
[mk-app] #153 not #93
[mk-app] #153 not #89
[mk-app] #153 not #89
[mk-app] #153 not #89
[mk-app] #153 not #88
[mk-app] #153 not #89
[mk-app] #153 not #90
[mk-app] #153 not #90
[mk-app] #153 not #90
[mk-app] #153 not #90
[mk-app] #153 not #91
[mk-app] #153 not #90
[mk-app] #153 not #90
[mk-app] #153 not #90
[mk-app] #153 not #92
[mk-app] #153 not #90
[mk-app] #153 not #90
[mk-app] #153 not #90
[mk-app] #153 not #93
[mk-app] #153 not #90
[mk-app] #153 not #90
[mk-app] #153 not #90
[mk-app] #153 not #94
[mk-app] #153 not #90
[mk-app] #153 not #90
[mk-app] #153 not #90
[mk-app] #153 not #88
[mk-app] #153 not #89
[mk-app] #153 not #90
[mk-app] #153 not #91
[mk-app] #153 not #91
[mk-app] #153 not #91
[mk-app] #153 not #91
[mk-app] #153 not #92
[mk-app] #153 not #91
[mk-app] #153 not #91
[mk-app] #153 not #91
[mk-app] #153 not #93
[mk-app] #153 not #91
[mk-app] #153 not #91
[mk-app] #153 not #91
[mk-app] #153 not #94
[mk-app] #153 not #91
[mk-app] #153 not #91
[mk-app] #153 not #91
[mk-app] #153 not #95
[mk-app] #153 not #91
[mk-app] #153 not #91
[mk-app] #153 not #91
[mk-app] #153 not #88
[mk-app] #153 not #89
[mk-app] #153 not #90
[mk-app] #153 not #91
[mk-app] #153 not #92
[mk-app] #153 not #92
[mk-app] #153 not #92
[mk-app] #153 not #92
[mk-app] #153 not #93
[mk-app] #153 not #92
[mk-app] #153 not #92
[mk-app] #153 not #92
[mk-app] #153 not #94
[mk-app] #153 not #92
[mk-app] #153 not #92
[mk-app] #153 not #92
[mk-app] #153 not #95
[mk-app] #153 not #92
[mk-app] #153 not #92
[mk-app] #153 not #92
[mk-app] #153 not #96
[mk-app] #153 not #92
[mk-app] #153 not #92
[mk-app] #153 not #92
[mk-app] #153 not #88
[mk-app] #153 not #89
[mk-app] #153 not #90
[mk-app] #153 not #91
[mk-app] #153 not #92
[mk-app] #153 not #93
[mk-app] #153 not #93
[mk-app] #153 not #93
[mk-app] #153 not #93
[mk-app] #153 not #94
[mk-app] #153 not #93
[mk-app] #153 not #93
[mk-app] #153 not #93
[mk-app] #153 not #95
[mk-app] #153 not #93
[mk-app] #153 not #93
[mk-app] #153 not #93
[mk-app] #153 not #96
[mk-app] #153 not #93
[mk-app] #153 not #93
[mk-app] #153 not #93
[mk-app] #153 not #97
[mk-app] #153 not #93
[mk-app] #153 not #93
[mk-app] #153 not #93
[mk-app] #153 not #88
[mk-app] #153 not #89
[mk-app] #153 not #90
[mk-app] #153 not #91
[mk-app] #153 not #92
[mk-app] #153 not #93
[mk-app] #153 not #94
[mk-app] #153 not #94
[mk-app] #153 not #94
[mk-app] #153 not #94
[mk-app] #153 not #95
[mk-app] #153 not #94
[mk-app] #153 not #94
[mk-app] #153 not #94
[mk-app] #153 not #96
[mk-app] #153 not #94
[mk-app] #153 not #94
[mk-app] #153 not #94
[mk-app] #153 not #97
[mk-app] #153 not #94
[mk-app] #153 not #94
[mk-app] #153 not #94
[mk-app] #153 not #98
[mk-app] #153 not #94
[mk-app] #153 not #94
[mk-app] #153 not #94
[mk-app] #153 not #88
[mk-app] #153 not #89
[mk-app] #153 not #90
[mk-app] #153 not #91
[mk-app] #153 not #92
[mk-app] #153 not #93
[mk-app] #153 not #94
[mk-app] #153 not #95
[mk-app] #153 not #95
[mk-app] #153 not #95
[mk-app] #153 not #95
[mk-app] #153 not #96
[mk-app] #153 not #95
[mk-app] #153 not #95
[mk-app] #153 not #95
[mk-app] #153 not #97
[mk-app] #153 not #95
[mk-app] #153 not #95
[mk-app] #153 not #95
[mk-app] #153 not #98
[mk-app] #153 not #95
[mk-app] #153 not #95
[mk-app] #153 not #95
[mk-app] #153 not #99
[mk-app] #153 not #95
[mk-app] #153 not #95
[mk-app] #153 not #95
[mk-app] #153 not #88
[mk-app] #153 not #89
[mk-app] #153 not #90
[mk-app] #153 not #91
[mk-app] #153 not #92
[mk-app] #153 not #93
[mk-app] #153 not #94
[mk-app] #153 not #95
[mk-app] #153 not #96
[mk-app] #153 not #96
[mk-app] #153 not #96
[mk-app] #153 not #96
[mk-app] #153 not #97
[mk-app] #153 not #96
[mk-app] #153 not #96
[mk-app] #153 not #96
[mk-app] #153 not #98
[mk-app] #153 not #96
[mk-app] #153 not #96
[mk-app] #153 not #96
[mk-app] #153 not #99
[mk-app] #153 not #96
[mk-app] #153 not #96
[mk-app] #153 not #96
[mk-app] #153 not #100
[mk-app] #153 not #96
[mk-app] #153 not #96
[mk-app] #153 not #96
[mk-app] #153 not #88
[mk-app] #153 not #89
[mk-app] #153 not #90
[mk-app] #153 not #91
[mk-app] #153 not #92
[mk-app] #153 not #93
[mk-app] #153 not #94
[mk-app] #153 not #95
[mk-app] #153 not #96
[mk-app] #153 not #97
[mk-app] #153 not #97
[mk-app] #153 not #97
[mk-app] #153 not #97
[mk-app] #153 not #98
[mk-app] #153 not #97
[mk-app] #153 not #97
[mk-app] #153 not #97
[mk-app] #153 not #99
[mk-app] #153 not #97
[mk-app] #153 not #97
[mk-app] #153 not #97
[mk-app] #153 not #100
[mk-app] #153 not #97
[mk-app] #153 not #97
[mk-app] #153 not #97
[mk-app] #153 not #101
[mk-app] #153 not #97
[mk-app] #153 not #97
[mk-app] #153 not #97
[mk-app] #153 not #88
[mk-app] #153 not #89
[mk-app] #153 not #90
[mk-app] #153 not #91
[mk-app] #153 not #92
[mk-app] #153 not #93
[mk-app] #153 not #94
[mk-app] #153 not #95
[mk-app] #153 not #96
[mk-app] #153 not #97
[mk-app] #153 not #98
[mk-app] #153 not #98
[mk-app] #153 not #98
[mk-app] #153 not #98
[mk-app] #153 not #99
[mk-app] #153 not #98
[mk-app] #153 not #98
[mk-app] #153 not #98
[mk-app] #153 not #100
[mk-app] #153 not #98
[mk-app] #153 not #98
[mk-app] #153 not #98
[mk-app] #153 not #101
[mk-app] #153 not #98
[mk-app] #153 not #98
[mk-app] #153 not #98
[mk-app] #153 not #102
[mk-app] #153 not #98
[mk-app] #153 not #98
[mk-app] #153 not #98
[mk-app] #153 not #88
[mk-app] #153 not #89
[mk-app] #153 not #90
[mk-app] #153 not #91
[mk-app] #153 not #92
[mk-app] #153 not #93
[mk-app] #153 not #94
[mk-app] #153 not #95
[mk-app] #153 not #96
[mk-app] #153 not #97
[mk-app] #153 not #98
[mk-app] #153 not #99
[mk-app] #153 not #99
[mk-app] #153 not #99
[mk-app] #153 not #99
[mk-app] #153 not #100
[mk-app] #153 not #99
[mk-app] #153 not #99
[mk-app] #153 not #99
[mk-app] #153 not #101
[mk-app] #153 not #99
[mk-app] #153 not #99
[mk-app] #153 not #99
[mk-app] #153 not #102
[mk-app] #153 not #99
[mk-app] #153 not #99
[mk-app] #153 not #99
[mk-app] #153 not #103
[mk-app] #153 not #99
[mk-app] #153 not #99
[mk-app] #153 not #99
[mk-app] #153 not #88
[mk-app] #153 not #89
[mk-app] #153 not #90
[mk-app] #153 not #91
[mk-app] #153 not #92
[mk-app] #153 not #93
[mk-app] #153 not #94
[mk-app] #153 not #95
[mk-app] #153 not #96
[mk-app] #153 not #97
[mk-app] #153 not #98
[mk-app] #153 not #99
[mk-app] #153 not #100
[mk-app] #153 not #100
[mk-app] #153 not #100
[mk-app] #153 not #100
[mk-app] #153 not #101
[mk-app] #153 not #100
[mk-app] #153 not #100
[mk-app] #153 not #100
[mk-app] #153 not #102
[mk-app] #153 not #100
[mk-app] #153 not #100
[mk-app] #153 not #100
[mk-app] #153 not #103
[mk-app] #153 not #100
[mk-app] #153 not #100
[mk-app] #153 not #100
[mk-app] #153 not #104
[mk-app] #153 not #100
[mk-app] #153 not #100
[mk-app] #153 not #100
[mk-app] #153 not #88
[mk-app] #153 not #89
[mk-app] #153 not #90
[mk-app] #153 not #91
[mk-app] #153 not #92
[mk-app] #153 not #93
[mk-app] #153 not #94
[mk-app] #153 not #95
[mk-app] #153 not #96
[mk-app] #153 not #97
[mk-app] #153 not #98
[mk-app] #153 not #99
[mk-app] #153 not #100
[mk-app] #153 not #101
[mk-app] #153 not #101
[mk-app] #153 not #101
[mk-app] #153 not #101
[mk-app] #153 not #102
[mk-app] #153 not #101
[mk-app] #153 not #101
[mk-app] #153 not #101
[mk-app] #153 not #103
[mk-app] #153 not #101
[mk-app] #153 not #101
[mk-app] #153 not #101
[mk-app] #153 not #104
[mk-app] #153 not #101
[mk-app] #153 not #101
[mk-app] #153 not #101
[mk-app] #153 not #105
[mk-app] #153 not #101
[mk-app] #153 not #101
[mk-app] #153 not #101
[mk-app] #153 not #88
[mk-app] #153 not #89
[mk-app] #153 not #90
[mk-app] #153 not #91
[mk-app] #153 not #92
[mk-app] #153 not #93
[mk-app] #153 not #94
[mk-app] #153 not #95
[mk-app] #153 not #96
[mk-app] #153 not #97
[mk-app] #153 not #98
[mk-app] #153 not #99
[mk-app] #153 not #100
[mk-app] #153 not #101
[mk-app] #153 not #102
[mk-app] #153 not #102
[mk-app] #153 not #102
[mk-app] #153 not #102
[mk-app] #153 not #103
[mk-app] #153 not #102
[mk-app] #153 not #102
[mk-app] #153 not #102
[mk-app] #153 not #104
[mk-app] #153 not #102
[mk-app] #153 not #102
[mk-app] #153 not #102
[mk-app] #153 not #105
[mk-app] #153 not #102
[mk-app] #153 not #102
[mk-app] #153 not #102
[mk-app] #153 not #106
[mk-app] #153 not #102
[mk-app] #153 not #102
[mk-app] #153 not #102
[mk-app] #153 not #88
[mk-app] #153 not #89
[mk-app] #153 not #90
[mk-app] #153 not #91
[mk-app] #153 not #92
[mk-app] #153 not #93
[mk-app] #153 not #94
[mk-app] #153 not #95
[mk-app] #153 not #96
[mk-app] #153 not #97
[mk-app] #153 not #98
[mk-app] #153 not #99
[mk-app] #153 not #100
[mk-app] #153 not #101
[mk-app] #153 not #102
[mk-app] #153 not #103
[mk-app] #153 not #103
[mk-app] #153 not #103
[mk-app] #153 not #103
[mk-app] #153 not #104
[mk-app] #153 not #103
[mk-app] #153 not #103
[mk-app] #153 not #103
[mk-app] #153 not #105
[mk-app] #153 not #103
[mk-app] #153 not #103
[mk-app] #153 not #103
[mk-app] #153 not #106
[mk-app] #153 not #103
[mk-app] #153 not #103
[mk-app] #153 not #103
[mk-app] #153 not #107
[mk-app] #153 not #103
[mk-app] #153 not #103
[mk-app] #153 not #103
[mk-app] #153 not #88
[mk-app] #153 not #89
[mk-app] #153 not #90
[mk-app] #153 not #91
[mk-app] #153 not #92
[mk-app] #153 not #93
[mk-app] #153 not #94
[mk-app] #153 not #95
[mk-app] #153 not #96
[mk-app] #153 not #97
[mk-app] #153 not #98
[mk-app] #153 not #99
[mk-app] #153 not #100
[mk-app] #153 not #101
[mk-app] #153 not #102
[mk-app] #153 not #103
[mk-app] #153 not #104
[mk-app] #153 not #104
[mk-app] #153 not #104
[mk-app] #153 not #104
[mk-app] #153 not #105
[mk-app] #153 not #104
[mk-app] #153 not #104
[mk-app] #153 not #104
[mk-app] #153 not #106
[mk-app] #153 not #104
[mk-app] #153 not #104
[mk-app] #153 not #104
[mk-app] #153 not #107
[mk-app] #153 not #104
[mk-app] #153 not #104
[mk-app] #153 not #104
[mk-app] #153 not #108
[mk-app] #153 not #104
[mk-app] #153 not #104
[mk-app] #153 not #104
[mk-app] #153 not #88
[mk-app] #153 not #89
[mk-app] #153 not #90
[mk-app] #153 not #91
[mk-app] #153 not #92
[mk-app] #153 not #93
[mk-app] #153 not #94
[mk-app] #153 not #95
[mk-app] #153 not #96
[mk-app] #153 not #97
[mk-app] #153 not #98
[mk-app] #153 not #99
[mk-app] #153 not #100
[mk-app] #153 not #101
[mk-app] #153 not #102
[mk-app] #153 not #103
[mk-app] #153 not #104
[mk-app] #153 not #105
[mk-app] #153 not #105
[mk-app] #153 not #105
[mk-app] #153 not #105
[mk-app] #153 not #106
[mk-app] #153 not #105
[mk-app] #153 not #105
[mk-app] #153 not #105
[mk-app] #153 not #107
[mk-app] #153 not #105
[mk-app] #153 not #105
[mk-app] #153 not #105
[mk-app] #153 not #108
[mk-app] #153 not #105
[mk-app] #153 not #105
[mk-app] #153 not #105
[mk-app] #153 not #109
[mk-app] #153 not #105
[mk-app] #153 not #105
[mk-app] #153 not #105
[mk-app] #153 not #88
[mk-app] #153 not #89
[mk-app] #153 not #90
[mk-app] #153 not #91
[mk-app] #153 not #92
[mk-app] #153 not #93
[mk-app] #153 not #94
[mk-app] #153 not #95
[mk-app] #153 not #96
[mk-app] #153 not #97
[mk-app] #153 not #98
[mk-app] #153 not #99
[mk-app] #153 not #100
[mk-app] #153 not #101
[mk-app] #153 not #102
[mk-app] #153 not #103
[mk-app] #153 not #104
[mk-app] #153 not #105
[mk-app] #153 not #106
[mk-app] #153 not #106
[mk-app] #153 not #106
[mk-app] #153 not #106
[mk-app] #153 not #107
[mk-app] #153 not #106
[mk-app] #153 not #106
[mk-app] #153 not #106
[mk-app] #153 not #108
[mk-app] #153 not #106
[mk-app] #153 not #106
[mk-app] #153 not #106
[mk-app] #153 not #109
[mk-app] #153 not #106
[mk-app] #153 not #106
[mk-app] #153 not #106
[mk-app] #153 not #110
[mk-app] #153 not #106
[mk-app] #153 not #106
[mk-app] #153 not #106
[mk-app] #153 not #88
[mk-app] #153 not #89
[mk-app] #153 not #90
[mk-app] #153 not #91
[mk-app] #153 not #92
[mk-app] #153 not #93
[mk-app] #153 not #94
[mk-app] #153 not #95
[mk-app] #153 not #96
[mk-app] #153 not #97
[mk-app] #153 not #98
[mk-app] #153 not #99
[mk-app] #153 not #100
[mk-app] #153 not #101
[mk-app] #153 not #102
[mk-app] #153 not #103
[mk-app] #153 not #104
[mk-app] #153 not #105
[mk-app] #153 not #106
[mk-app] #153 not #107
[mk-app] #153 not #107
[mk-app] #153 not #107
[mk-app] #153 not #107
[mk-app] #153 not #108
[mk-app] #153 not #107
[mk-app] #153 not #107
[mk-app] #153 not #107
[mk-app] #153 not #109
[mk-app] #153 not #107
[mk-app] #153 not #107
[mk-app] #153 not #107
[mk-app] #153 not #110
[mk-app] #153 not #107
[mk-app] #153 not #107
[mk-app] #153 not #107
[mk-app] #153 not #111
[mk-app] #153 not #107
[mk-app] #153 not #107
[mk-app] #153 not #107
[mk-app] #153 not #88
[mk-app] #153 not #89
[mk-app] #153 not #90
[mk-app] #153 not #91
[mk-app] #153 not #92
[mk-app] #153 not #93
[mk-app] #153 not #94
[mk-app] #153 not #95
[mk-app] #153 not #96
[mk-app] #153 not #97
[mk-app] #153 not #98
[mk-app] #153 not #99
[mk-app] #153 not #100
[mk-app] #153 not #101
[mk-app] #153 not #102
[mk-app] #153 not #103
[mk-app] #153 not #104
[mk-app] #153 not #105
[mk-app] #153 not #106
[mk-app] #153 not #107
[mk-app] #153 not #108
[mk-app] #153 not #108
[mk-app] #153 not #108
[mk-app] #153 not #108
[mk-app] #153 not #109
[mk-app] #153 not #108
[mk-app] #153 not #108
[mk-app] #153 not #108
[mk-app] #153 not #110
[mk-app] #153 not #108
[mk-app] #153 not #108
[mk-app] #153 not #108
[mk-app] #153 not #111
[mk-app] #153 not #108
[mk-app] #153 not #108
[mk-app] #153 not #108
[mk-app] #153 not #112
[mk-app] #153 not #108
[mk-app] #153 not #108
[mk-app] #153 not #108
[mk-app] #153 not #88
[mk-app] #153 not #89
[mk-app] #153 not #90
[mk-app] #153 not #91
[mk-app] #153 not #92
[mk-app] #153 not #93
[mk-app] #153 not #94
[mk-app] #153 not #95
[mk-app] #153 not #96
[mk-app] #153 not #97
[mk-app] #153 not #98
[mk-app] #153 not #99
[mk-app] #153 not #100
[mk-app] #153 not #101
[mk-app] #153 not #102
[mk-app] #153 not #103
[mk-app] #153 not #104
[mk-app] #153 not #105
[mk-app] #153 not #106
[mk-app] #153 not #107
[mk-app] #153 not #108
[mk-app] #153 not #109
[mk-app] #153 not #109
[mk-app] #153 not #109
[mk-app] #153 not #109
[mk-app] #153 not #110
[mk-app] #153 not #109
[mk-app] #153 not #109
[mk-app] #153 not #109
[mk-app] #153 not #111
[mk-app] #153 not #109
[mk-app] #153 not #109
[mk-app] #153 not #109
[mk-app] #153 not #112
[mk-app] #153 not #109
[mk-app] #153 not #109
[mk-app] #153 not #109
[mk-app] #153 not #113
[mk-app] #153 not #109
[mk-app] #153 not #109
[mk-app] #153 not #109
[mk-app] #153 not #88
[mk-app] #153 not #89
[mk-app] #153 not #90
[mk-app] #153 not #91
[mk-app] #153 not #92
[mk-app] #153 not #93
[mk-app] #153 not #94
[mk-app] #153 not #95
[mk-app] #153 not #96
[mk-app] #153 not #97
[mk-app] #153 not #98
[mk-app] #153 not #99
[mk-app] #153 not #100
[mk-app] #153 not #101
[mk-app] #153 not #102
[mk-app] #153 not #103
[mk-app] #153 not #104
[mk-app] #153 not #105
[mk-app] #153 not #106
[mk-app] #153 not #107
[mk-app] #153 not #108
[mk-app] #153 not #109
[mk-app] #153 not #110
[mk-app] #153 not #110
[mk-app] #153 not #110
[mk-app] #153 not #110
[mk-app] #153 not #111
[mk-app] #153 not #110
[mk-app] #153 not #110
[mk-app] #153 not #110
[mk-app] #153 not #112
[mk-app] #153 not #110
[mk-app] #153 not #110
[mk-app] #153 not #110
[mk-app] #153 not #113
[mk-app] #153 not #110
[mk-app] #153 not #110
[mk-app] #153 not #110
[mk-app] #153 not #114
[mk-app] #153 not #110
[mk-app] #153 not #110
[mk-app] #153 not #110
[mk-app] #153 not #88
[mk-app] #153 not #89
[mk-app] #153 not #90
[mk-app] #153 not #91
[mk-app] #153 not #92
[mk-app] #153 not #93
[mk-app] #153 not #94
[mk-app] #153 not #95
[mk-app] #153 not #96
[mk-app] #153 not #97
[mk-app] #153 not #98
[mk-app] #153 not #99
[mk-app] #153 not #100
[mk-app] #153 not #101
[mk-app] #153 not #102
[mk-app] #153 not #103
[mk-app] #153 not #104
[mk-app] #153 not #105
[mk-app] #153 not #106
[mk-app] #153 not #107
[mk-app] #153 not #108
[mk-app] #153 not #109
[mk-app] #153 not #110
[mk-app] #153 not #111
[mk-app] #153 not #111
[mk-app] #153 not #111
[mk-app] #153 not #111
[mk-app] #153 not #112
[mk-app] #153 not #111
[mk-app] #153 not #111
[mk-app] #153 not #111
[mk-app] #153 not #113
[mk-app] #153 not #111
[mk-app] #153 not #111
[mk-app] #153 not #111
[mk-app] #153 not #114
[mk-app] #153 not #111
[mk-app] #153 not #111
[mk-app] #153 not #111
[mk-app] #153 not #115
[mk-app] #153 not #111
[mk-app] #153 not #111
[mk-app] #153 not #111
[mk-app] #153 not #88
[mk-app] #153 not #89
[mk-app] #153 not #90
[mk-app] #153 not #91
[mk-app] #153 not #92
[mk-app] #153 not #93
[mk-app] #153 not #94
[mk-app] #153 not #95
[mk-app] #153 not #96
[mk-app] #153 not #97
[mk-app] #153 not #98
[mk-app] #153 not #99
[mk-app] #153 not #100
[mk-app] #153 not #101
[mk-app] #153 not #102
[mk-app] #153 not #103
[mk-app] #153 not #104
[mk-app] #153 not #105
[mk-app] #153 not #106
[mk-app] #153 not #107
[mk-app] #153 not #108
[mk-app] #153 not #109
[mk-app] #153 not #110
[mk-app] #153 not #111
[mk-app] #153 not #112
[mk-app] #153 not #112
[mk-app] #153 not #112
[mk-app] #153 not #112
[mk-app] #153 not #113
[mk-app] #153 not #112
[mk-app] #153 not #112
[mk-app] #153 not #112
[mk-app] #153 not #114
[mk-app] #153 not #112
[mk-app] #153 not #112
[mk-app] #153 not #112
[mk-app] #153 not #115
[mk-app] #153 not #112
[mk-app] #153 not #112
[mk-app] #153 not #112
[mk-app] #153 not #116
[mk-app] #153 not #112
[mk-app] #153 not #112
[mk-app] #153 not #112
[mk-app] #153 not #88
[mk-app] #153 not #89
[mk-app] #153 not #90
[mk-app] #153 not #91
[mk-app] #153 not #92
[mk-app] #153 not #93
[mk-app] #153 not #94
[mk-app] #153 not #95
[mk-app] #153 not #96
[mk-app] #153 not #97
[mk-app] #153 not #98
[mk-app] #153 not #99
[mk-app] #153 not #100
[mk-app] #153 not #101
[mk-app] #153 not #102
[mk-app] #153 not #103
[mk-app] #153 not #104
[mk-app] #153 not #105
[mk-app] #153 not #106
[mk-app] #153 not #107
[mk-app] #153 not #108
[mk-app] #153 not #109
[mk-app] #153 not #110
[mk-app] #153 not #111
[mk-app] #153 not #112
[mk-app] #153 not #113
[mk-app] #153 not #113
[mk-app] #153 not #113
[mk-app] #153 not #113
[mk-app] #153 not #114
[mk-app] #153 not #113
[mk-app] #153 not #113
[mk-app] #153 not #113
[mk-app] #153 not #115
[mk-app] #153 not #113
[mk-app] #153 not #113
[mk-app] #153 not #113
[mk-app] #153 not #116
[mk-app] #153 not #113
[mk-app] #153 not #113
[mk-app] #153 not #113
[mk-app] #153 not #117
[mk-app] #153 not #113
[mk-app] #153 not #113
[mk-app] #153 not #113
[mk-app] #153 not #88
[mk-app] #153 not #89
[mk-app] #153 not #90
[mk-app] #153 not #91
[mk-app] #153 not #92
[mk-app] #153 not #93
[mk-app] #153 not #94
[mk-app] #153 not #95
[mk-app] #153 not #96
[mk-app] #153 not #97
[mk-app] #153 not #98
[mk-app] #153 not #99
[mk-app] #153 not #100
[mk-app] #153 not #101
[mk-app] #153 not #102
[mk-app] #153 not #103
[mk-app] #153 not #104
[mk-app] #153 not #105
[mk-app] #153 not #106
[mk-app] #153 not #107
[mk-app] #153 not #108
[mk-app] #153 not #109
[mk-app] #153 not #110
[mk-app] #153 not #111
[mk-app] #153 not #112
[mk-app] #153 not #113
[mk-app] #153 not #114
[mk-app] #153 not #114
[mk-app] #153 not #114
[mk-app] #153 not #114
[mk-app] #153 not #115
[mk-app] #153 not #114
[mk-app] #153 not #114
[mk-app] #153 not #114
[mk-app] #153 not #116
[mk-app] #153 not #114
[mk-app] #153 not #114
[mk-app] #153 not #114
[mk-app] #153 not #117
[mk-app] #153 not #114
[mk-app] #153 not #114
[mk-app] #153 not #114
[mk-app] #153 not #118
[mk-app] #153 not #114
[mk-app] #153 not #114
[mk-app] #153 not #114
[mk-app] #153 not #88
[mk-app] #153 not #89
[mk-app] #153 not #90
[mk-app] #153 not #91
[mk-app] #153 not #92
[mk-app] #153 not #93
[mk-app] #153 not #94
[mk-app] #153 not #95
[mk-app] #153 not #96
[mk-app] #153 not #97
[mk-app] #153 not #98
[mk-app] #153 not #99
[mk-app] #153 not #100
[mk-app] #153 not #101
[mk-app] #153 not #102
[mk-app] #153 not #103
[mk-app] #153 not #104
[mk-app] #153 not #105
[mk-app] #153 not #106
[mk-app] #153 not #107
[mk-app] #153 not #108
[mk-app] #153 not #109
[mk-app] #153 not #110
[mk-app] #153 not #111
[mk-app] #153 not #112
[mk-app] #153 not #113
[mk-app] #153 not #114
[mk-app] #153 not #115
[mk-app] #153 not #115
[mk-app] #153 not #115
[mk-app] #153 not #115
[mk-app] #153 not #116
[mk-app] #153 not #115
[mk-app] #153 not #115
[mk-app] #153 not #115
[mk-app] #153 not #117
[mk-app] #153 not #115
[mk-app] #153 not #115
[mk-app] #153 not #115
[mk-app] #153 not #118
[mk-app] #153 not #115
[mk-app] #153 not #115
[mk-app] #153 not #115
[mk-app] #153 not #119
[mk-app] #153 not #115
[mk-app] #153 not #115
[mk-app] #153 not #115
[mk-app] #153 not #88
[mk-app] #153 not #89
[mk-app] #153 not #90
[mk-app] #153 not #91
[mk-app] #153 not #92
[mk-app] #153 not #93
[mk-app] #153 not #94
[mk-app] #153 not #95
[mk-app] #153 not #96
[mk-app] #153 not #97
[mk-app] #153 not #98
[mk-app] #153 not #99
[mk-app] #153 not #100
[mk-app] #153 not #101
[mk-app] #153 not #102
[mk-app] #153 not #103
[mk-app] #153 not #104
[mk-app] #153 not #105
[mk-app] #153 not #106
[mk-app] #153 not #107
[mk-app] #153 not #108
[mk-app] #153 not #109
[mk-app] #153 not #110
[mk-app] #153 not #111
[mk-app] #153 not #112
[mk-app] #153 not #113
[mk-app] #153 not #114
[mk-app] #153 not #115
[mk-app] #153 not #116
[mk-app] #153 not #116
[mk-app] #153 not #116
[mk-app] #153 not #116
[mk-app] #153 not #117
[mk-app] #153 not #116
[mk-app] #153 not #116
[mk-app] #153 not #116
[mk-app] #153 not #118
[mk-app] #153 not #116
[mk-app] #153 not #116
[mk-app] #153 not #116
[mk-app] #153 not #119
[mk-app] #153 not #116
[mk-app] #153 not #116
[mk-app] #153 not #116
[mk-app] #153 not #120
[mk-app] #153 not #116
[mk-app] #153 not #116
[mk-app] #153 not #116
[mk-app] #153 not #88
[mk-app] #153 not #89
[mk-app] #153 not #90
[mk-app] #153 not #91
[mk-app] #153 not #92
[mk-app] #153 not #93
[mk-app] #153 not #94
[mk-app] #153 not #95
[mk-app] #153 not #96
[mk-app] #153 not #97
[mk-app] #153 not #98
[mk-app] #153 not #99
[mk-app] #153 not #100
[mk-app] #153 not #101
[mk-app] #153 not #102
[mk-app] #153 not #103
[mk-app] #153 not #104
[mk-app] #153 not #105
[mk-app] #153 not #106
[mk-app] #153 not #107
[mk-app] #153 not #108
[mk-app] #153 not #109
[mk-app] #153 not #110
[mk-app] #153 not #111
[mk-app] #153 not #112
[mk-app] #153 not #113
[mk-app] #153 not #114
[mk-app] #153 not #115
[mk-app] #153 not #116
[mk-app] #153 not #117
[mk-app] #153 not #117
[mk-app] #153 not #117
[mk-app] #153 not #117
[mk-app] #153 not #118
[mk-app] #153 not #117
[mk-app] #153 not #117
[mk-app] #153 not #117
[mk-app] #153 not #119
[mk-app] #153 not #117
[mk-app] #153 not #117
[mk-app] #153 not #117
[mk-app] #153 not #120
[mk-app] #153 not #117
[mk-app] #153 not #117
[mk-app] #153 not #117
[mk-app] #153 not #121
[mk-app] #153 not #117
[mk-app] #153 not #117
[mk-app] #153 not #117
[mk-app] #153 not #88
[mk-app] #153 not #89
[mk-app] #153 not #90
[mk-app] #153 not #91
[mk-app] #153 not #92
[mk-app] #153 not #93
[mk-app] #153 not #94
[mk-app] #153 not #95
[mk-app] #153 not #96
[mk-app] #153 not #97
[mk-app] #153 not #98
[mk-app] #153 not #99
[mk-app] #153 not #100
[mk-app] #153 not #101
[mk-app] #153 not #102
[mk-app] #153 not #103
[mk-app] #153 not #104
[mk-app] #153 not #105
[mk-app] #153 not #106
[mk-app] #153 not #107
[mk-app] #153 not #108
[mk-app] #153 not #109
[mk-app] #153 not #110
[mk-app] #153 not #111
[mk-app] #153 not #112
[mk-app] #153 not #113
[mk-app] #153 not #114
[mk-app] #153 not #115
[mk-app] #153 not #116
[mk-app] #153 not #117
[mk-app] #153 not #118
[mk-app] #153 not #118
[mk-app] #153 not #118
[mk-app] #153 not #118
[mk-app] #153 not #119
[mk-app] #153 not #118
[mk-app] #153 not #118
[mk-app] #153 not #118
[mk-app] #153 not #120
[mk-app] #153 not #118
[mk-app] #153 not #118
[mk-app] #153 not #118
[mk-app] #153 not #121
[mk-app] #153 not #118
[mk-app] #153 not #118
[mk-app] #153 not #118
[mk-app] #153 not #122
[mk-app] #153 not #118
[mk-app] #153 not #118
[mk-app] #153 not #118
[mk-app] #153 not #88
[mk-app] #153 not #89
[mk-app] #153 not #90
[mk-app] #153 not #91
[mk-app] #153 not #92
[mk-app] #153 not #93
[mk-app] #153 not #94
[mk-app] #153 not #95
[mk-app] #153 not #96
[mk-app] #153 not #97
[mk-app] #153 not #98
[mk-app] #153 not #99
[mk-app] #153 not #100
[mk-app] #153 not #101
[mk-app] #153 not #102
[mk-app] #153 not #103
[mk-app] #153 not #104
[mk-app] #153 not #105
[mk-app] #153 not #106
[mk-app] #153 not #107
[mk-app] #153 not #108
[mk-app] #153 not #109
[mk-app] #153 not #110
[mk-app] #153 not #111
[mk-app] #153 not #112
[mk-app] #153 not #113
[mk-app] #153 not #114
[mk-app] #153 not #115
[mk-app] #153 not #116
[mk-app] #153 not #117
[mk-app] #153 not #118
[mk-app] #153 not #119
[mk-app] #153 not #119
[mk-app] #153 not #119
[mk-app] #153 not #119
[mk-app] #153 not #120
[mk-app] #153 not #119
[mk-app] #153 not #119
[mk-app] #153 not #119
[mk-app] #153 not #121
[mk-app] #153 not #119
[mk-app] #153 not #119
[mk-app] #153 not #119
[mk-app] #153 not #122
[mk-app] #153 not #119
[mk-app] #153 not #119
[mk-app] #153 not #119
[mk-app] #153 not #123
[mk-app] #153 not #119
[mk-app] #153 not #119
[mk-app] #153 not #119
[mk-app] #153 not #88
[mk-app] #153 not #89
[mk-app] #153 not #90
[mk-app] #153 not #91
[mk-app] #153 not #92
[mk-app] #153 not #93
[mk-app] #153 not #94
[mk-app] #153 not #95
[mk-app] #153 not #96
[mk-app] #153 not #97
[mk-app] #153 not #98
[mk-app] #153 not #99
[mk-app] #153 not #100
[mk-app] #153 not #101
[mk-app] #153 not #102
[mk-app] #153 not #103
[mk-app] #153 not #104
[mk-app] #153 not #105
[mk-app] #153 not #106
[mk-app] #153 not #107
[mk-app] #153 not #108
[mk-app] #153 not #109
[mk-app] #153 not #110
[mk-app] #153 not #111
[mk-app] #153 not #112
[mk-app] #153 not #113
[mk-app] #153 not #114
[mk-app] #153 not #115
[mk-app] #153 not #116
[mk-app] #153 not #117
[mk-app] #153 not #118
[mk-app] #153 not #119
[mk-app] #153 not #120
[mk-app] #153 not #120
[mk-app] #153 not #120
[mk-app] #153 not #120
[mk-app] #153 not #121
[mk-app] #153 not #120
[mk-app] #153 not #120
[mk-app] #153 not #120
[mk-app] #153 not #122
[mk-app] #153 not #120
[mk-app] #153 not #120
[mk-app] #153 not #120
[mk-app] #153 not #123
[mk-app] #153 not #120
[mk-app] #153 not #120
[mk-app] #153 not #120
[mk-app] #153 not #124
[mk-app] #153 not #120
[mk-app] #153 not #120
[mk-app] #153 not #120
[mk-app] #153 not #88
[mk-app] #153 not #89
[mk-app] #153 not #90
[mk-app] #153 not #91
[mk-app] #153 not #92
[mk-app] #153 not #93
[mk-app] #153 not #94
[mk-app] #153 not #95
[mk-app] #153 not #96
[mk-app] #153 not #97
[mk-app] #153 not #98
[mk-app] #153 not #99
[mk-app] #153 not #100
[mk-app] #153 not #101
[mk-app] #153 not #102
[mk-app] #153 not #103
[mk-app] #153 not #104
[mk-app] #153 not #105
[mk-app] #153 not #106
[mk-app] #153 not #107
[mk-app] #153 not #108
[mk-app] #153 not #109
[mk-app] #153 not #110
[mk-app] #153 not #111
[mk-app] #153 not #112
[mk-app] #153 not #113
[mk-app] #153 not #114
[mk-app] #153 not #115
[mk-app] #153 not #116
[mk-app] #153 not #117
[mk-app] #153 not #118
[mk-app] #153 not #119
[mk-app] #153 not #120
[mk-app] #153 not #121
[mk-app] #153 not #121
[mk-app] #153 not #121
[mk-app] #153 not #121
[mk-app] #153 not #122
[mk-app] #153 not #121
[mk-app] #153 not #121
[mk-app] #153 not #121
[mk-app] #153 not #123
[mk-app] #153 not #121
[mk-app] #153 not #121
[mk-app] #153 not #121
[mk-app] #153 not #124
[mk-app] #153 not #121
[mk-app] #153 not #121
[mk-app] #153 not #121
[mk-app] #153 not #125
[mk-app] #153 not #121
[mk-app] #153 not #121
[mk-app] #153 not #121
[mk-app] #153 not #88
[mk-app] #153 not #89
[mk-app] #153 not #90
[mk-app] #153 not #91
[mk-app] #153 not #92
[mk-app] #153 not #93
[mk-app] #153 not #94
[mk-app] #153 not #95
[mk-app] #153 not #96
[mk-app] #153 not #97
[mk-app] #153 not #98
[mk-app] #153 not #99
[mk-app] #153 not #100
[mk-app] #153 not #101
[mk-app] #153 not #102
[mk-app] #153 not #103
[mk-app] #153 not #104
[mk-app] #153 not #105
[mk-app] #153 not #106
[mk-app] #153 not #107
[mk-app] #153 not #108
[mk-app] #153 not #109
[mk-app] #153 not #110
[mk-app] #153 not #111
[mk-app] #153 not #112
[mk-app] #153 not #113
[mk-app] #153 not #114
[mk-app] #153 not #115
[mk-app] #153 not #116
[mk-app] #153 not #117
[mk-app] #153 not #118
[mk-app] #153 not #119
[mk-app] #153 not #120
[mk-app] #153 not #121
[mk-app] #153 not #122
[mk-app] #153 not #122
[mk-app] #153 not #122
[mk-app] #153 not #122
[mk-app] #153 not #123
[mk-app] #153 not #122
[mk-app] #153 not #122
[mk-app] #153 not #122
[mk-app] #153 not #124
[mk-app] #153 not #122
[mk-app] #153 not #122
[mk-app] #153 not #122
[mk-app] #153 not #125
[mk-app] #153 not #122
[mk-app] #153 not #122
[mk-app] #153 not #122
[mk-app] #153 not #126
[mk-app] #153 not #122
[mk-app] #153 not #122
[mk-app] #153 not #122
[mk-app] #153 not #88
[mk-app] #153 not #89
[mk-app] #153 not #90
[mk-app] #153 not #91
[mk-app] #153 not #92
[mk-app] #153 not #93
[mk-app] #153 not #94
[mk-app] #153 not #95
[mk-app] #153 not #96
[mk-app] #153 not #97
[mk-app] #153 not #98
[mk-app] #153 not #99
[mk-app] #153 not #100
[mk-app] #153 not #101
[mk-app] #153 not #102
[mk-app] #153 not #103
[mk-app] #153 not #104
[mk-app] #153 not #105
[mk-app] #153 not #106
[mk-app] #153 not #107
[mk-app] #153 not #108
[mk-app] #153 not #109
[mk-app] #153 not #110
[mk-app] #153 not #111
[mk-app] #153 not #112
[mk-app] #153 not #113
[mk-app] #153 not #114
[mk-app] #153 not #115
[mk-app] #153 not #116
[mk-app] #153 not #117
[mk-app] #153 not #118
[mk-app] #153 not #119
[mk-app] #153 not #120
[mk-app] #153 not #121
[mk-app] #153 not #122
[mk-app] #153 not #123
[mk-app] #153 not #123
[mk-app] #153 not #123
[mk-app] #153 not #123
[mk-app] #153 not #124
[mk-app] #153 not #123
[mk-app] #153 not #123
[mk-app] #153 not #123
[mk-app] #153 not #125
[mk-app] #153 not #123
[mk-app] #153 not #123
[mk-app] #153 not #123
[mk-app] #153 not #126
[mk-app] #153 not #123
[mk-app] #153 not #123
[mk-app] #153 not #123
[mk-app] #153 not #127
[mk-app] #153 not #123
[mk-app] #153 not #123
[mk-app] #153 not #123
[mk-app] #153 not #88
[mk-app] #153 not #89
[mk-app] #153 not #90
[mk-app] #153 not #91
[mk-app] #153 not #92
[mk-app] #153 not #93
[mk-app] #153 not #94
[mk-app] #153 not #95
[mk-app] #153 not #96
[mk-app] #153 not #97
[mk-app] #153 not #98
[mk-app] #153 not #99
[mk-app] #153 not #100
[mk-app] #153 not #101
[mk-app] #153 not #102
[mk-app] #153 not #103
[mk-app] #153 not #104
[mk-app] #153 not #105
[mk-app] #153 not #106
[mk-app] #153 not #107
[mk-app] #153 not #108
[mk-app] #153 not #109
[mk-app] #153 not #110
[mk-app] #153 not #111
[mk-app] #153 not #112
[mk-app] #153 not #113
[mk-app] #153 not #114
[mk-app] #153 not #115
[mk-app] #153 not #116
[mk-app] #153 not #117
[mk-app] #153 not #118
[mk-app] #153 not #119
[mk-app] #153 not #120
[mk-app] #153 not #121
[mk-app] #153 not #122
[mk-app] #153 not #123
[mk-app] #153 not #124
[mk-app] #153 not #124
[mk-app] #153 not #124
[mk-app] #153 not #124
[mk-app] #153 not #125
[mk-app] #153 not #124
[mk-app] #153 not #124
[mk-app] #153 not #124
[mk-app] #153 not #126
[mk-app] #153 not #124
[mk-app] #153 not #124
[mk-app] #153 not #124
[mk-app] #153 not #127
[mk-app] #153 not #124
[mk-app] #153 not #124
[mk-app] #153 not #124
[mk-app] #153 not #128
[mk-app] #153 not #124
[mk-app] #153 not #124
[mk-app] #153 not #124
[mk-app] #153 not #88
[mk-app] #153 not #89
[mk-app] #153 not #90
[mk-app] #153 not #91
[mk-app] #153 not #92
[mk-app] #153 not #93
[mk-app] #153 not #94
[mk-app] #153 not #95
[mk-app] #153 not #96
[mk-app] #153 not #97
[mk-app] #153 not #98
[mk-app] #153 not #99
[mk-app] #153 not #100
[mk-app] #153 not #101
[mk-app] #153 not #102
[mk-app] #153 not #103
[mk-app] #153 not #104
[mk-app] #153 not #105
[mk-app] #153 not #106
[mk-app] #153 not #107
[mk-app] #153 not #108
[mk-app] #153 not #109
[mk-app] #153 not #110
[mk-app] #153 not #111
[mk-app] #153 not #112
[mk-app] #153 not #113
[mk-app] #153 not #114
[mk-app] #153 not #115
[mk-app] #153 not #116
[mk-app] #153 not #117
[mk-app] #153 not #118
[mk-app] #153 not #119
[mk-app] #153 not #120
[mk-app] #153 not #121
[mk-app] #153 not #122
[mk-app] #153 not #123
[mk-app] #153 not #124
[mk-app] #153 not #125
[mk-app] #153 not #125
[mk-app] #153 not #125
[mk-app] #153 not #125
[mk-app] #153 not #126
[mk-app] #153 not #125
[mk-app] #153 not #125
[mk-app] #153 not #125
[mk-app] #153 not #127
[mk-app] #153 not #125
[mk-app] #153 not #125
[mk-app] #153 not #125
[mk-app] #153 not #128
[mk-app] #153 not #125
[mk-app] #153 not #125
[mk-app] #153 not #125
[mk-app] #153 not #129
[mk-app] #153 not #125
[mk-app] #153 not #125
[mk-app] #153 not #125
[mk-app] #153 not #88
[mk-app] #153 not #89
[mk-app] #153 not #90
[mk-app] #153 not #91
[mk-app] #153 not #92
[mk-app] #153 not #93
[mk-app] #153 not #94
[mk-app] #153 not #95
[mk-app] #153 not #96
[mk-app] #153 not #97
[mk-app] #153 not #98
[mk-app] #153 not #99
[mk-app] #153 not #100
[mk-app] #153 not #101
[mk-app] #153 not #102
[mk-app] #153 not #103
[mk-app] #153 not #104
[mk-app] #153 not #105
[mk-app] #153 not #106
[mk-app] #153 not #107
[mk-app] #153 not #108
[mk-app] #153 not #109
[mk-app] #153 not #110
[mk-app] #153 not #111
[mk-app] #153 not #112
[mk-app] #153 not #113
[mk-app] #153 not #114
[mk-app] #153 not #115
[mk-app] #153 not #116
[mk-app] #153 not #117
[mk-app] #153 not #118
[mk-app] #153 not #119
[mk-app] #153 not #120
[mk-app] #153 not #121
[mk-app] #153 not #122
[mk-app] #153 not #123
[mk-app] #153 not #124
[mk-app] #153 not #125
[mk-app] #153 not #126
[mk-app] #153 not #126
[mk-app] #153 not #126
[mk-app] #153 not #126
[mk-app] #153 not #127
[mk-app] #153 not #126
[mk-app] #153 not #126
[mk-app] #153 not #126
[mk-app] #153 not #128
[mk-app] #153 not #126
[mk-app] #153 not #126
[mk-app] #153 not #126
[mk-app] #153 not #129
[mk-app] #153 not #126
[mk-app] #153 not #126
[mk-app] #153 not #126
[mk-app] #153 not #130
[mk-app] #153 not #126
[mk-app] #153 not #126
[mk-app] #153 not #126
[mk-app] #153 not #88
[mk-app] #153 not #89
[mk-app] #153 not #90
[mk-app] #153 not #91
[mk-app] #153 not #92
[mk-app] #153 not #93
[mk-app] #153 not #94
[mk-app] #153 not #95
[mk-app] #153 not #96
[mk-app] #153 not #97
[mk-app] #153 not #98
[mk-app] #153 not #99
[mk-app] #153 not #100
[mk-app] #153 not #101
[mk-app] #153 not #102
[mk-app] #153 not #103
[mk-app] #153 not #104
[mk-app] #153 not #105
[mk-app] #153 not #106
[mk-app] #153 not #107
[mk-app] #153 not #108
[mk-app] #153 not #109
[mk-app] #153 not #110
[mk-app] #153 not #111
[mk-app] #153 not #112
[mk-app] #153 not #113
[mk-app] #153 not #114
[mk-app] #153 not #115
[mk-app] #153 not #116
[mk-app] #153 not #117
[mk-app] #153 not #118
[mk-app] #153 not #119
[mk-app] #153 not #120
[mk-app] #153 not #121
[mk-app] #153 not #122
[mk-app] #153 not #123
[mk-app] #153 not #124
[mk-app] #153 not #125
[mk-app] #153 not #126
[mk-app] #153 not #127
[mk-app] #153 not #127
[mk-app] #153 not #127
[mk-app] #153 not #127
[mk-app] #153 not #128
[mk-app] #153 not #127
[mk-app] #153 not #127
[mk-app] #153 not #127
[mk-app] #153 not #129
[mk-app] #153 not #127
[mk-app] #153 not #127
[mk-app] #153 not #127
[mk-app] #153 not #130
[mk-app] #153 not #127
[mk-app] #153 not #127
[mk-app] #153 not #127
[mk-app] #153 not #131
[mk-app] #153 not #127
[mk-app] #153 not #127
[mk-app] #153 not #127
[mk-app] #153 not #88
[mk-app] #153 not #89
[mk-app] #153 not #90
[mk-app] #153 not #91
[mk-app] #153 not #92
[mk-app] #153 not #93
[mk-app] #153 not #94
[mk-app] #153 not #95
[mk-app] #153 not #96
[mk-app] #153 not #97
[mk-app] #153 not #98
[mk-app] #153 not #99
[mk-app] #153 not #100
[mk-app] #153 not #101
[mk-app] #153 not #102
[mk-app] #153 not #103
[mk-app] #153 not #104
[mk-app] #153 not #105
[mk-app] #153 not #106
[mk-app] #153 not #107
[mk-app] #153 not #108
[mk-app] #153 not #109
[mk-app] #153 not #110
[mk-app] #153 not #111
[mk-app] #153 not #112
[mk-app] #153 not #113
[mk-app] #153 not #114
[mk-app] #153 not #115
[mk-app] #153 not #116
[mk-app] #153 not #117
[mk-app] #153 not #118
[mk-app] #153 not #119
[mk-app] #153 not #120
[mk-app] #153 not #121
[mk-app] #153 not #122
[mk-app] #153 not #123
[mk-app] #153 not #124
[mk-app] #153 not #125
[mk-app] #153 not #126
[mk-app] #153 not #127
[mk-app] #153 not #128
[mk-app] #153 not #128
[mk-app] #153 not #128
[mk-app] #153 not #128
[mk-app] #153 not #129
[mk-app] #153 not #128
[mk-app] #153 not #128
[mk-app] #153 not #128
[mk-app] #153 not #130
[mk-app] #153 not #128
[mk-app] #153 not #128
[mk-app] #153 not #128
[mk-app] #153 not #131
[mk-app] #153 not #128
[mk-app] #153 not #128
[mk-app] #153 not #128
[mk-app] #153 not #132
[mk-app] #153 not #128
[mk-app] #153 not #128
[mk-app] #153 not #128
[mk-app] #153 not #88
[mk-app] #153 not #89
[mk-app] #153 not #90
[mk-app] #153 not #91
[mk-app] #153 not #92
[mk-app] #153 not #93
[mk-app] #153 not #94
[mk-app] #153 not #95
[mk-app] #153 not #96
[mk-app] #153 not #97
[mk-app] #153 not #98
[mk-app] #153 not #99
[mk-app] #153 not #100
[mk-app] #153 not #101
[mk-app] #153 not #102
[mk-app] #153 not #103
[mk-app] #153 not #104
[mk-app] #153 not #105
[mk-app] #153 not #106
[mk-app] #153 not #107
[mk-app] #153 not #108
[mk-app] #153 not #109
[mk-app] #153 not #110
[mk-app] #153 not #111
[mk-app] #153 not #112
[mk-app] #153 not #113
[mk-app] #153 not #114
[mk-app] #153 not #115
[mk-app] #153 not #116
[mk-app] #153 not #117
[mk-app] #153 not #118
[mk-app] #153 not #119
[mk-app] #153 not #120
[mk-app] #153 not #121
[mk-app] #153 not #122
[mk-app] #153 not #123
[mk-app] #153 not #124
[mk-app] #153 not #125
[mk-app] #153 not #126
[mk-app] #153 not #127
[mk-app] #153 not #128
[mk-app] #153 not #129
[mk-app] #153 not #129
[mk-app] #153 not #129
[mk-app] #153 not #129
[mk-app] #153 not #130
[mk-app] #153 not #129
[mk-app] #153 not #129
[mk-app] #153 not #129
[mk-app] #153 not #131
[mk-app] #153 not #129
[mk-app] #153 not #129
[mk-app] #153 not #129
[mk-app] #153 not #132
[mk-app] #153 not #129
[mk-app] #153 not #129
[mk-app] #153 not #129
[mk-app] #153 not #133
[mk-app] #153 not #129
[mk-app] #153 not #129
[mk-app] #153 not #129
[mk-app] #153 not #88
[mk-app] #153 not #89
[mk-app] #153 not #90
[mk-app] #153 not #91
[mk-app] #153 not #92
[mk-app] #153 not #93
[mk-app] #153 not #94
[mk-app] #153 not #95
[mk-app] #153 not #96
[mk-app] #153 not #97
[mk-app] #153 not #98
[mk-app] #153 not #99
[mk-app] #153 not #100
[mk-app] #153 not #101
[mk-app] #153 not #102
[mk-app] #153 not #103
[mk-app] #153 not #104
[mk-app] #153 not #105
[mk-app] #153 not #106
[mk-app] #153 not #107
[mk-app] #153 not #108
[mk-app] #153 not #109
[mk-app] #153 not #110
[mk-app] #153 not #111
[mk-app] #153 not #112
[mk-app] #153 not #113
[mk-app] #153 not #114
[mk-app] #153 not #115
[mk-app] #153 not #116
[mk-app] #153 not #117
[mk-app] #153 not #118
[mk-app] #153 not #119
[mk-app] #153 not #120
[mk-app] #153 not #121
[mk-app] #153 not #122
[mk-app] #153 not #123
[mk-app] #153 not #124
[mk-app] #153 not #125
[mk-app] #153 not #126
[mk-app] #153 not #127
[mk-app] #153 not #128
[mk-app] #153 not #129
[mk-app] #153 not #130
[mk-app] #153 not #130
[mk-app] #153 not #130
[mk-app] #153 not #130
[mk-app] #153 not #131
[mk-app] #153 not #130
[mk-app] #153 not #130
[mk-app] #153 not #130
[mk-app] #153 not #132
[mk-app] #153 not #130
[mk-app] #153 not #130
[mk-app] #153 not #130
[mk-app] #153 not #133
[mk-app] #153 not #130
[mk-app] #153 not #130
[mk-app] #153 not #130
[mk-app] #153 not #134
[mk-app] #153 not #130
[mk-app] #153 not #130
[mk-app] #153 not #130
[mk-app] #153 not #88
[mk-app] #153 not #89
[mk-app] #153 not #90
[mk-app] #153 not #91
[mk-app] #153 not #92
[mk-app] #153 not #93
[mk-app] #153 not #94
[mk-app] #153 not #95
[mk-app] #153 not #96
[mk-app] #153 not #97
[mk-app] #153 not #98
[mk-app] #153 not #99
[mk-app] #153 not #100
[mk-app] #153 not #101
[mk-app] #153 not #102
[mk-app] #153 not #103
[mk-app] #153 not #104
[mk-app] #153 not #105
[mk-app] #153 not #106
[mk-app] #153 not #107
[mk-app] #153 not #108
[mk-app] #153 not #109
[mk-app] #153 not #110
[mk-app] #153 not #111
[mk-app] #153 not #112
[mk-app] #153 not #113
[mk-app] #153 not #114
[mk-app] #153 not #115
[mk-app] #153 not #116
[mk-app] #153 not #117
[mk-app] #153 not #118
[mk-app] #153 not #119
[mk-app] #153 not #120
[mk-app] #153 not #121
[mk-app] #153 not #122
[mk-app] #153 not #123
[mk-app] #153 not #124
[mk-app] #153 not #125
[mk-app] #153 not #126
[mk-app] #153 not #127
[mk-app] #153 not #128
[mk-app] #153 not #129
[mk-app] #153 not #130
[mk-app] #153 not #131
[mk-app] #153 not #131
[mk-app] #153 not #131
[mk-app] #153 not #131
[mk-app] #153 not #132
[mk-app] #153 not #131
[mk-app] #153 not #131
[mk-app] #153 not #131
[mk-app] #153 not #133
[mk-app] #153 not #131
[mk-app] #153 not #131
[mk-app] #153 not #131
[mk-app] #153 not #134
[mk-app] #153 not #131
[mk-app] #153 not #131
[mk-app] #153 not #131
[mk-app] #153 not #135
[mk-app] #153 not #131
[mk-app] #153 not #131
[mk-app] #153 not #131
[mk-app] #153 not #88
[mk-app] #153 not #89
[mk-app] #153 not #90
[mk-app] #153 not #91
[mk-app] #153 not #92
[mk-app] #153 not #93
[mk-app] #153 not #94
[mk-app] #153 not #95
[mk-app] #153 not #96
[mk-app] #153 not #97
[mk-app] #153 not #98
[mk-app] #153 not #99
[mk-app] #153 not #100
[mk-app] #153 not #101
[mk-app] #153 not #102
[mk-app] #153 not #103
[mk-app] #153 not #104
[mk-app] #153 not #105
[mk-app] #153 not #106
[mk-app] #153 not #107
[mk-app] #153 not #108
[mk-app] #153 not #109
[mk-app] #153 not #110
[mk-app] #153 not #111
[mk-app] #153 not #112
[mk-app] #153 not #113
[mk-app] #153 not #114
[mk-app] #153 not #115
[mk-app] #153 not #116
[mk-app] #153 not #117
[mk-app] #153 not #118
[mk-app] #153 not #119
[mk-app] #153 not #120
[mk-app] #153 not #121
[mk-app] #153 not #122
[mk-app] #153 not #123
[mk-app] #153 not #124
[mk-app] #153 not #125
[mk-app] #153 not #126
[mk-app] #153 not #127
[mk-app] #153 not #128
[mk-app] #153 not #129
[mk-app] #153 not #130
[mk-app] #153 not #131
[mk-app] #153 not #132
[mk-app] #153 not #132
[mk-app] #153 not #132
[mk-app] #153 not #132
[mk-app] #153 not #133
[mk-app] #153 not #132
[mk-app] #153 not #132
[mk-app] #153 not #132
[mk-app] #153 not #134
[mk-app] #153 not #132
[mk-app] #153 not #132
[mk-app] #153 not #132
[mk-app] #153 not #135
[mk-app] #153 not #132
[mk-app] #153 not #132
[mk-app] #153 not #132
[mk-app] #153 not #136
[mk-app] #153 not #132
[mk-app] #153 not #132
[mk-app] #153 not #132
[mk-app] #153 not #88
[mk-app] #153 not #89
[mk-app] #153 not #90
[mk-app] #153 not #91
[mk-app] #153 not #92
[mk-app] #153 not #93
[mk-app] #153 not #94
[mk-app] #153 not #95
[mk-app] #153 not #96
[mk-app] #153 not #97
[mk-app] #153 not #98
[mk-app] #153 not #99
[mk-app] #153 not #100
[mk-app] #153 not #101
[mk-app] #153 not #102
[mk-app] #153 not #103
[mk-app] #153 not #104
[mk-app] #153 not #105
[mk-app] #153 not #106
[mk-app] #153 not #107
[mk-app] #153 not #108
[mk-app] #153 not #109
[mk-app] #153 not #110
[mk-app] #153 not #111
[mk-app] #153 not #112
[mk-app] #153 not #113
[mk-app] #153 not #114
[mk-app] #153 not #115
[mk-app] #153 not #116
[mk-app] #153 not #117
[mk-app] #153 not #118
[mk-app] #153 not #119
[mk-app] #153 not #120
[mk-app] #153 not #121
[mk-app] #153 not #122
[mk-app] #153 not #123
[mk-app] #153 not #124
[mk-app] #153 not #125
[mk-app] #153 not #126
[mk-app] #153 not #127
[mk-app] #153 not #128
[mk-app] #153 not #129
[mk-app] #153 not #130
[mk-app] #153 not #131
[mk-app] #153 not #132
[mk-app] #153 not #133
[mk-app] #153 not #133
[mk-app] #153 not #133
[mk-app] #153 not #133
[mk-app] #153 not #134
[mk-app] #153 not #133
[mk-app] #153 not #133
[mk-app] #153 not #133
[mk-app] #153 not #135
[mk-app] #153 not #133
[mk-app] #153 not #133
[mk-app] #153 not #133
[mk-app] #153 not #136
[mk-app] #153 not #133
[mk-app] #153 not #133
[mk-app] #153 not #133
[mk-app] #153 not #137
[mk-app] #153 not #133
[mk-app] #153 not #133
[mk-app] #153 not #133
[mk-app] #153 not #88
[mk-app] #153 not #89
[mk-app] #153 not #90
[mk-app] #153 not #91
[mk-app] #153 not #92
[mk-app] #153 not #93
[mk-app] #153 not #94
[mk-app] #153 not #95
[mk-app] #153 not #96
[mk-app] #153 not #97
[mk-app] #153 not #98
[mk-app] #153 not #99
[mk-app] #153 not #100
[mk-app] #153 not #101
[mk-app] #153 not #102
[mk-app] #153 not #103
[mk-app] #153 not #104
[mk-app] #153 not #105
[mk-app] #153 not #106
[mk-app] #153 not #107
[mk-app] #153 not #108
[mk-app] #153 not #109
[mk-app] #153 not #110
[mk-app] #153 not #111
[mk-app] #153 not #112
[mk-app] #153 not #113
[mk-app] #153 not #114
[mk-app] #153 not #115
[mk-app] #153 not #116
[mk-app] #153 not #117
[mk-app] #153 not #118
[mk-app] #153 not #119
[mk-app] #153 not #120
[mk-app] #153 not #121
[mk-app] #153 not #122
[mk-app] #153 not #123
[mk-app] #153 not #124
[mk-app] #153 not #125
[mk-app] #153 not #126
[mk-app] #153 not #127
[mk-app] #153 not #128
[mk-app] #153 not #129
[mk-app] #153 not #130
[mk-app] #153 not #131
[mk-app] #153 not #132
[mk-app] #153 not #133
[mk-app] #153 not #134
[mk-app] #153 not #134
[mk-app] #153 not #134
[mk-app] #153 not #134
[mk-app] #153 not #135
[mk-app] #153 not #134
[mk-app] #153 not #134
[mk-app] #153 not #134
[mk-app] #153 not #136
[mk-app] #153 not #134
[mk-app] #153 not #134
[mk-app] #153 not #134
[mk-app] #153 not #137
[mk-app] #153 not #134
[mk-app] #153 not #134
[mk-app] #153 not #134
[mk-app] #153 not #138
[mk-app] #153 not #134
[mk-app] #153 not #134
[mk-app] #153 not #134
[mk-app] #153 not #88
[mk-app] #153 not #89
[mk-app] #153 not #90
[mk-app] #153 not #91
[mk-app] #153 not #92
[mk-app] #153 not #93
[mk-app] #153 not #94
[mk-app] #153 not #95
[mk-app] #153 not #96
[mk-app] #153 not #97
[mk-app] #153 not #98
[mk-app] #153 not #99
[mk-app] #153 not #100
[mk-app] #153 not #101
[mk-app] #153 not #102
[mk-app] #153 not #103
[mk-app] #153 not #104
[mk-app] #153 not #105
[mk-app] #153 not #106
[mk-app] #153 not #107
[mk-app] #153 not #108
[mk-app] #153 not #109
[mk-app] #153 not #110
[mk-app] #153 not #111
[mk-app] #153 not #112
[mk-app] #153 not #113
[mk-app] #153 not #114
[mk-app] #153 not #115
[mk-app] #153 not #116
[mk-app] #153 not #117
[mk-app] #153 not #118
[mk-app] #153 not #119
[mk-app] #153 not #120
[mk-app] #153 not #121
[mk-app] #153 not #122
[mk-app] #153 not #123
[mk-app] #153 not #124
[mk-app] #153 not #125
[mk-app] #153 not #126
[mk-app] #153 not #127
[mk-app] #153 not #128
[mk-app] #153 not #129
[mk-app] #153 not #130
[mk-app] #153 not #131
[mk-app] #153 not #132
[mk-app] #153 not #133
[mk-app] #153 not #134
[mk-app] #153 not #135
[mk-app] #153 not #135
[mk-app] #153 not #135
[mk-app] #153 not #135
[mk-app] #153 not #136
[mk-app] #153 not #135
[mk-app] #153 not #135
[mk-app] #153 not #135
[mk-app] #153 not #137
[mk-app] #153 not #135
[mk-app] #153 not #135
[mk-app] #153 not #135
[mk-app] #153 not #138
[mk-app] #153 not #135
[mk-app] #153 not #135
[mk-app] #153 not #135
[mk-app] #153 not #139
[mk-app] #153 not #135
[mk-app] #153 not #135
[mk-app] #153 not #135
[mk-app] #153 not #88
[mk-app] #153 not #89
[mk-app] #153 not #90
[mk-app] #153 not #91
[mk-app] #153 not #92
[mk-app] #153 not #93
[mk-app] #153 not #94
[mk-app] #153 not #95
[mk-app] #153 not #96
[mk-app] #153 not #97
[mk-app] #153 not #98
[mk-app] #153 not #99
[mk-app] #153 not #100
[mk-app] #153 not #101
[mk-app] #153 not #102
[mk-app] #153 not #103
[mk-app] #153 not #104
[mk-app] #153 not #105
[mk-app] #153 not #106
[mk-app] #153 not #107
[mk-app] #153 not #108
[mk-app] #153 not #109
[mk-app] #153 not #110
[mk-app] #153 not #111
[mk-app] #153 not #112
[mk-app] #153 not #113
[mk-app] #153 not #114
[mk-app] #153 not #115
[mk-app] #153 not #116
[mk-app] #153 not #117
[mk-app] #153 not #118
[mk-app] #153 not #119
[mk-app] #153 not #120
[mk-app] #153 not #121
[mk-app] #153 not #122
[mk-app] #153 not #123
[mk-app] #153 not #124
[mk-app] #153 not #125
[mk-app] #153 not #126
[mk-app] #153 not #127
[mk-app] #153 not #128
[mk-app] #153 not #129
[mk-app] #153 not #130
[mk-app] #153 not #131
[mk-app] #153 not #132
[mk-app] #153 not #133
[mk-app] #153 not #134
[mk-app] #153 not #135
[mk-app] #153 not #136
[mk-app] #153 not #136
[mk-app] #153 not #136
[mk-app] #153 not #136
[mk-app] #153 not #137
[mk-app] #153 not #136
[mk-app] #153 not #136
[mk-app] #153 not #136
[mk-app] #153 not #138
[mk-app] #153 not #136
[mk-app] #153 not #136
[mk-app] #153 not #136
[mk-app] #153 not #139
[mk-app] #153 not #136
[mk-app] #153 not #136
[mk-app] #153 not #136
[mk-app] #153 not #140
[mk-app] #153 not #136
[mk-app] #153 not #136
[mk-app] #153 not #136
[mk-app] #153 not #88
[mk-app] #153 not #89
[mk-app] #153 not #90
[mk-app] #153 not #91
[mk-app] #153 not #92
[mk-app] #153 not #93
[mk-app] #153 not #94
[mk-app] #153 not #95
[mk-app] #153 not #96
[mk-app] #153 not #97
[mk-app] #153 not #98
[mk-app] #153 not #99
[mk-app] #153 not #100
[mk-app] #153 not #101
[mk-app] #153 not #102
[mk-app] #153 not #103
[mk-app] #153 not #104
[mk-app] #153 not #105
[mk-app] #153 not #106
[mk-app] #153 not #107
[mk-app] #153 not #108
[mk-app] #153 not #109
[mk-app] #153 not #110
[mk-app] #153 not #111
[mk-app] #153 not #112
[mk-app] #153 not #113
[mk-app] #153 not #114
[mk-app] #153 not #115
[mk-app] #153 not #116
[mk-app] #153 not #117
[mk-app] #153 not #118
[mk-app] #153 not #119
[mk-app] #153 not #120
[mk-app] #153 not #121
[mk-app] #153 not #122
[mk-app] #153 not #123
[mk-app] #153 not #124
[mk-app] #153 not #125
[mk-app] #153 not #126
[mk-app] #153 not #127
[mk-app] #153 not #128
[mk-app] #153 not #129
[mk-app] #153 not #130
[mk-app] #153 not #131
[mk-app] #153 not #132
[mk-app] #153 not #133
[mk-app] #153 not #134
[mk-app] #153 not #135
[mk-app] #153 not #136
[mk-app] #153 not #137
[mk-app] #153 not #137
[mk-app] #153 not #137
[mk-app] #153 not #137
[mk-app] #153 not #138
[mk-app] #153 not #137
[mk-app] #153 not #137
[mk-app] #153 not #137
[mk-app] #153 not #139
[mk-app] #153 not #137
[mk-app] #153 not #137
[mk-app] #153 not #137
[mk-app] #153 not #140
[mk-app] #153 not #137
[mk-app] #153 not #137
[mk-app] #153 not #137
[mk-app] #153 not #141
[mk-app] #153 not #137
[mk-app] #153 not #137
[mk-app] #153 not #137
[mk-app] #153 not #88
[mk-app] #153 not #89
[mk-app] #153 not #90
[mk-app] #153 not #91
[mk-app] #153 not #92
[mk-app] #153 not #93
[mk-app] #153 not #94
[mk-app] #153 not #95
[mk-app] #153 not #96
[mk-app] #153 not #97
[mk-app] #153 not #98
[mk-app] #153 not #99
[mk-app] #153 not #100
[mk-app] #153 not #101
[mk-app] #153 not #102
[mk-app] #153 not #103
[mk-app] #153 not #104
[mk-app] #153 not #105
[mk-app] #153 not #106
[mk-app] #153 not #107
[mk-app] #153 not #108
[mk-app] #153 not #109
[mk-app] #153 not #110
[mk-app] #153 not #111
[mk-app] #153 not #112
[mk-app] #153 not #113
[mk-app] #153 not #114
[mk-app] #153 not #115
[mk-app] #153 not #116
[mk-app] #153 not #117
[mk-app] #153 not #118
[mk-app] #153 not #119
[mk-app] #153 not #120
[mk-app] #153 not #121
[mk-app] #153 not #122
[mk-app] #153 not #123
[mk-app] #153 not #124
[mk-app] #153 not #125
[mk-app] #153 not #126
[mk-app] #153 not #127
[mk-app] #153 not #128
[mk-app] #153 not #129
[mk-app] #153 not #130
[mk-app] #153 not #131
[mk-app] #153 not #132
[mk-app] #153 not #133
[mk-app] #153 not #134
[mk-app] #153 not #135
[mk-app] #153 not #136
[mk-app] #153 not #137
[mk-app] #153 not #138
[mk-app] #153 not #138
[mk-app] #153 not #138
[mk-app] #153 not #138
[mk-app] #153 not #139
[mk-app] #153 not #138
[mk-app] #153 not #138
[mk-app] #153 not #138
[mk-app] #153 not #140
[mk-app] #153 not #138
[mk-app] #153 not #138
[mk-app] #153 not #138
[mk-app] #153 not #141
[mk-app] #153 not #138
[mk-app] #153 not #138
[mk-app] #153 not #138
[mk-app] #153 not #142
[mk-app] #153 not #138
[mk-app] #153 not #138
[mk-app] #153 not #138
[mk-app] #153 not #88
[mk-app] #153 not #89
[mk-app] #153 not #90
[mk-app] #153 not #91
[mk-app] #153 not #92
[mk-app] #153 not #93
[mk-app] #153 not #94
[mk-app] #153 not #95
[mk-app] #153 not #96
[mk-app] #153 not #97
[mk-app] #153 not #98
[mk-app] #153 not #99
[mk-app] #153 not #100
[mk-app] #153 not #101
[mk-app] #153 not #102
[mk-app] #153 not #103
[mk-app] #153 not #104
[mk-app] #153 not #105
[mk-app] #153 not #106
[mk-app] #153 not #107
[mk-app] #153 not #108
[mk-app] #153 not #109
[mk-app] #153 not #110
[mk-app] #153 not #111
[mk-app] #153 not #112
[mk-app] #153 not #113
[mk-app] #153 not #114
[mk-app] #153 not #115
[mk-app] #153 not #116
[mk-app] #153 not #117
[mk-app] #153 not #118
[mk-app] #153 not #119
[mk-app] #153 not #120
[mk-app] #153 not #121
[mk-app] #153 not #122
[mk-app] #153 not #123
[mk-app] #153 not #124
[mk-app] #153 not #125
[mk-app] #153 not #126
[mk-app] #153 not #127
[mk-app] #153 not #128
[mk-app] #153 not #129
[mk-app] #153 not #130
[mk-app] #153 not #131
[mk-app] #153 not #132
[mk-app] #153 not #133
[mk-app] #153 not #134
[mk-app] #153 not #135
[mk-app] #153 not #136
[mk-app] #153 not #137
[mk-app] #153 not #138
[mk-app] #153 not #139
[mk-app] #153 not #139
[mk-app] #153 not #139
[mk-app] #153 not #139
[mk-app] #153 not #140
[mk-app] #153 not #139
[mk-app] #153 not #139
[mk-app] #153 not #139
[mk-app] #153 not #141
[mk-app] #153 not #139
[mk-app] #153 not #139
[mk-app] #153 not #139
[mk-app] #153 not #142
[mk-app] #153 not #139
[mk-app] #153 not #139
[mk-app] #153 not #139
[mk-app] #153 not #143
[mk-app] #153 not #139
[mk-app] #153 not #139
[mk-app] #153 not #139
[mk-app] #153 not #88
[mk-app] #153 not #89
[mk-app] #153 not #90
[mk-app] #153 not #91
[mk-app] #153 not #92
[mk-app] #153 not #93
[mk-app] #153 not #94
[mk-app] #153 not #95
[mk-app] #153 not #96
[mk-app] #153 not #97
[mk-app] #153 not #98
[mk-app] #153 not #99
[mk-app] #153 not #100
[mk-app] #153 not #101
[mk-app] #153 not #102
[mk-app] #153 not #103
[mk-app] #153 not #104
[mk-app] #153 not #105
[mk-app] #153 not #106
[mk-app] #153 not #107
[mk-app] #153 not #108
[mk-app] #153 not #109
[mk-app] #153 not #110
[mk-app] #153 not #111
[mk-app] #153 not #112
[mk-app] #153 not #113
[mk-app] #153 not #114
[mk-app] #153 not #115
[mk-app] #153 not #116
[mk-app] #153 not #117
[mk-app] #153 not #118
[mk-app] #153 not #119
[mk-app] #153 not #120
[mk-app] #153 not #121
[mk-app] #153 not #122
[mk-app] #153 not #123
[mk-app] #153 not #124
[mk-app] #153 not #125
[mk-app] #153 not #126
[mk-app] #153 not #127
[mk-app] #153 not #128
[mk-app] #153 not #129
[mk-app] #153 not #130
[mk-app] #153 not #131
[mk-app] #153 not #132
[mk-app] #153 not #133
[mk-app] #153 not #134
[mk-app] #153 not #135
[mk-app] #153 not #136
[mk-app] #153 not #137
[mk-app] #153 not #138
[mk-app] #153 not #139
[mk-app] #153 not #140
[mk-app] #153 not #140
[mk-app] #153 not #140
[mk-app] #153 not #140
[mk-app] #153 not #141
[mk-app] #153 not #140
[mk-app] #153 not #140
[mk-app] #153 not #140
[mk-app] #153 not #142
[mk-app] #153 not #140
[mk-app] #153 not #140
[mk-app] #153 not #140
[mk-app] #153 not #143
[mk-app] #153 not #140
[mk-app] #153 not #140
[mk-app] #153 not #140
[mk-app] #153 not #144
[mk-app] #153 not #140
[mk-app] #153 not #140
[mk-app] #153 not #140
[mk-app] #153 not #88
[mk-app] #153 not #89
[mk-app] #153 not #90
[mk-app] #153 not #91
[mk-app] #153 not #92
[mk-app] #153 not #93
[mk-app] #153 not #94
[mk-app] #153 not #95
[mk-app] #153 not #96
[mk-app] #153 not #97
[mk-app] #153 not #98
[mk-app] #153 not #99
[mk-app] #153 not #100
[mk-app] #153 not #101
[mk-app] #153 not #102
[mk-app] #153 not #103
[mk-app] #153 not #104
[mk-app] #153 not #105
[mk-app] #153 not #106
[mk-app] #153 not #107
[mk-app] #153 not #108
[mk-app] #153 not #109
[mk-app] #153 not #110
[mk-app] #153 not #111
[mk-app] #153 not #112
[mk-app] #153 not #113
[mk-app] #153 not #114
[mk-app] #153 not #115
[mk-app] #153 not #116
[mk-app] #153 not #117
[mk-app] #153 not #118
[mk-app] #153 not #119
[mk-app] #153 not #120
[mk-app] #153 not #121
[mk-app] #153 not #122
[mk-app] #153 not #123
[mk-app] #153 not #124
[mk-app] #153 not #125
[mk-app] #153 not #126
[mk-app] #153 not #127
[mk-app] #153 not #128
[mk-app] #153 not #129
[mk-app] #153 not #130
[mk-app] #153 not #131
[mk-app] #153 not #132
[mk-app] #153 not #133
[mk-app] #153 not #134
[mk-app] #153 not #135
[mk-app] #153 not #136
[mk-app] #153 not #137
[mk-app] #153 not #138
[mk-app] #153 not #139
[mk-app] #153 not #140
[mk-app] #153 not #141
[mk-app] #153 not #141
[mk-app] #153 not #141
[mk-app] #153 not #141
[mk-app] #153 not #142
[mk-app] #153 not #141
[mk-app] #153 not #141
[mk-app] #153 not #141
[mk-app] #153 not #143
[mk-app] #153 not #141
[mk-app] #153 not #141
[mk-app] #153 not #141
[mk-app] #153 not #144
[mk-app] #153 not #141
[mk-app] #153 not #141
[mk-app] #153 not #141
[mk-app] #153 not #145
[mk-app] #153 not #141
[mk-app] #153 not #141
[mk-app] #153 not #141
[mk-app] #153 not #88
[mk-app] #153 not #89
[mk-app] #153 not #90
[mk-app] #153 not #91
[mk-app] #153 not #92
[mk-app] #153 not #93
[mk-app] #153 not #94
[mk-app] #153 not #95
[mk-app] #153 not #96
[mk-app] #153 not #97
[mk-app] #153 not #98
[mk-app] #153 not #99
[mk-app] #153 not #100
[mk-app] #153 not #101
[mk-app] #153 not #102
[mk-app] #153 not #103
[mk-app] #153 not #104
[mk-app] #153 not #105
[mk-app] #153 not #106
[mk-app] #153 not #107
[mk-app] #153 not #108
[mk-app] #153 not #109
[mk-app] #153 not #110
[mk-app] #153 not #111
[mk-app] #153 not #112
[mk-app] #153 not #113
[mk-app] #153 not #114
[mk-app] #153 not #115
[mk-app] #153 not #116
[mk-app] #153 not #117
[mk-app] #153 not #118
[mk-app] #153 not #119
[mk-app] #153 not #120
[mk-app] #153 not #121
[mk-app] #153 not #122
[mk-app] #153 not #123
[mk-app] #153 not #124
[mk-app] #153 not #125
[mk-app] #153 not #126
[mk-app] #153 not #127
[mk-app] #153 not #128
[mk-app] #153 not #129
[mk-app] #153 not #130
[mk-app] #153 not #131
[mk-app] #153 not #132
[mk-app] #153 not #133
[mk-app] #153 not #134
[mk-app] #153 not #135
[mk-app] #153 not #136
[mk-app] #153 not #137
[mk-app] #153 not #138
[mk-app] #153 not #139
[mk-app] #153 not #140
[mk-app] #153 not #141
[mk-app] #153 not #142
[mk-app] #153 not #142
[mk-app] #153 not #142
[mk-app] #153 not #142
[mk-app] #153 not #143
[mk-app] #153 not #142
[mk-app] #153 not #142
[mk-app] #153 not #142
[mk-app] #153 not #144
[mk-app] #153 not #142
[mk-app] #153 not #142
[mk-app] #153 not #142
[mk-app] #153 not #145
[mk-app] #153 not #142
[mk-app] #153 not #142
[mk-app] #153 not #142
[mk-app] #153 not #146
[mk-app] #153 not #142
[mk-app] #153 not #142
[mk-app] #153 not #142
[mk-app] #153 not #88
[mk-app] #153 not #89
[mk-app] #153 not #90
[mk-app] #153 not #91
[mk-app] #153 not #92
[mk-app] #153 not #93
[mk-app] #153 not #94
[mk-app] #153 not #95
[mk-app] #153 not #96
[mk-app] #153 not #97
[mk-app] #153 not #98
[mk-app] #153 not #99
[mk-app] #153 not #100
[mk-app] #153 not #101
[mk-app] #153 not #102
[mk-app] #153 not #103
[mk-app] #153 not #104
[mk-app] #153 not #105
[mk-app] #153 not #106
[mk-app] #153 not #107
[mk-app] #153 not #108
[mk-app] #153 not #109
[mk-app] #153 not #110
[mk-app] #153 not #111
[mk-app] #153 not #112
[mk-app] #153 not #113
[mk-app] #153 not #114
[mk-app] #153 not #115
[mk-app] #153 not #116
[mk-app] #153 not #117
[mk-app] #153 not #118
[mk-app] #153 not #119
[mk-app] #153 not #120
[mk-app] #153 not #121
[mk-app] #153 not #122
[mk-app] #153 not #123
[mk-app] #153 not #124
[mk-app] #153 not #125
[mk-app] #153 not #126
[mk-app] #153 not #127
[mk-app] #153 not #128
[mk-app] #153 not #129
[mk-app] #153 not #130
[mk-app] #153 not #131
[mk-app] #153 not #132
[mk-app] #153 not #133
[mk-app] #153 not #134
[mk-app] #153 not #135
[mk-app] #153 not #136
[mk-app] #153 not #137
[mk-app] #153 not #138
[mk-app] #153 not #139
[mk-app] #153 not #140
[mk-app] #153 not #141
[mk-app] #153 not #142
[mk-app] #153 not #143
[mk-app] #153 not #143
[mk-app] #153 not #143
[mk-app] #153 not #143
[mk-app] #153 not #144
[mk-app] #153 not #143
[mk-app] #153 not #143
[mk-app] #153 not #143
[mk-app] #153 not #145
[mk-app] #153 not #143
[mk-app] #153 not #143
[mk-app] #153 not #143
[mk-app] #153 not #146
[mk-app] #153 not #143
[mk-app] #153 not #143
[mk-app] #153 not #143
[mk-app] #153 not #147
[mk-app] #153 not #143
[mk-app] #153 not #143
[mk-app] #153 not #143
[mk-app] #153 not #88
[mk-app] #153 not #89
[mk-app] #153 not #90
[mk-app] #153 not #91
[mk-app] #153 not #92
[mk-app] #153 not #93
[mk-app] #153 not #94
[mk-app] #153 not #95
[mk-app] #153 not #96
[mk-app] #153 not #97
[mk-app] #153 not #98
[mk-app] #153 not #99
[mk-app] #153 not #100
[mk-app] #153 not #101
[mk-app] #153 not #102
[mk-app] #153 not #103
[mk-app] #153 not #104
[mk-app] #153 not #105
[mk-app] #153 not #106
[mk-app] #153 not #107
[mk-app] #153 not #108
[mk-app] #153 not #109
[mk-app] #153 not #110
[mk-app] #153 not #111
[mk-app] #153 not #112
[mk-app] #153 not #113
[mk-app] #153 not #114
[mk-app] #153 not #115
[mk-app] #153 not #116
[mk-app] #153 not #117
[mk-app] #153 not #118
[mk-app] #153 not #119
[mk-app] #153 not #120
[mk-app] #153 not #121
[mk-app] #153 not #122
[mk-app] #153 not #123
[mk-app] #153 not #124
[mk-app] #153 not #125
[mk-app] #153 not #126
[mk-app] #153 not #127
[mk-app] #153 not #128
[mk-app] #153 not #129
[mk-app] #153 not #130
[mk-app] #153 not #131
[mk-app] #153 not #132
[mk-app] #153 not #133
[mk-app] #153 not #134
[mk-app] #153 not #135
[mk-app] #153 not #136
[mk-app] #153 not #137
[mk-app] #153 not #138
[mk-app] #153 not #139
[mk-app] #153 not #140
[mk-app] #153 not #141
[mk-app] #153 not #142
[mk-app] #153 not #143
[mk-app] #153 not #144
[mk-app] #153 not #144
[mk-app] #153 not #144
[mk-app] #153 not #144
[mk-app] #153 not #145
[mk-app] #153 not #144
[mk-app] #153 not #144
[mk-app] #153 not #144
[mk-app] #153 not #146
[mk-app] #153 not #144
[mk-app] #153 not #144
[mk-app] #153 not #144
[mk-app] #153 not #147
[mk-app] #153 not #144
[mk-app] #153 not #144
[mk-app] #153 not #144
[mk-app] #153 not #148
[mk-app] #153 not #144
[mk-app] #153 not #144
[mk-app] #153 not #144
[mk-app] #153 not #88
[mk-app] #153 not #89
[mk-app] #153 not #90
[mk-app] #153 not #91
[mk-app] #153 not #92
[mk-app] #153 not #93
[mk-app] #153 not #94
[mk-app] #153 not #95
[mk-app] #153 not #96
[mk-app] #153 not #97
[mk-app] #153 not #98
[mk-app] #153 not #99
[mk-app] #153 not #100
[mk-app] #153 not #101
[mk-app] #153 not #102
[mk-app] #153 not #103
[mk-app] #153 not #104
[mk-app] #153 not #105
[mk-app] #153 not #106
[mk-app] #153 not #107
[mk-app] #153 not #108
[mk-app] #153 not #109
[mk-app] #153 not #110
[mk-app] #153 not #111
[mk-app] #153 not #112
[mk-app] #153 not #113
[mk-app] #153 not #114
[mk-app] #153 not #115
[mk-app] #153 not #116
[mk-app] #153 not #117
[mk-app] #153 not #118
[mk-app] #153 not #119
[mk-app] #153 not #120
[mk-app] #153 not #121
[mk-app] #153 not #122
[mk-app] #153 not #123
[mk-app] #153 not #124
[mk-app] #153 not #125
[mk-app] #153 not #126
[mk-app] #153 not #127
[mk-app] #153 not #128
[mk-app] #153 not #129
[mk-app] #153 not #130
[mk-app] #153 not #131
[mk-app] #153 not #132
[mk-app] #153 not #133
[mk-app] #153 not #134
[mk-app] #153 not #135
[mk-app] #153 not #136
[mk-app] #153 not #137
[mk-app] #153 not #138
[mk-app] #153 not #139
[mk-app] #153 not #140
[mk-app] #153 not #141
[mk-app] #153 not #142
[mk-app] #153 not #143
[mk-app] #153 not #144
[mk-app] #153 not #145
[mk-app] #153 not #145
[mk-app] #153 not #145
[mk-app] #153 not #145
[mk-app] #153 not #146
[mk-app] #153 not #145
[mk-app] #153 not #145
[mk-app] #153 not #145
[mk-app] #153 not #147
[mk-app] #153 not #145
[mk-app] #153 not #145
[mk-app] #153 not #145
[mk-app] #153 not #148
[mk-app] #153 not #145
[mk-app] #153 not #145
[mk-app] #153 not #145
[mk-app] #153 not #149
[mk-app] #153 not #145
[mk-app] #153 not #145
[mk-app] #153 not #145
[mk-app] #153 not #88
[mk-app] #153 not #89
[mk-app] #153 not #90
[mk-app] #153 not #91
[mk-app] #153 not #92
[mk-app] #153 not #93
[mk-app] #153 not #94
[mk-app] #153 not #95
[mk-app] #153 not #96
[mk-app] #153 not #97
[mk-app] #153 not #98
[mk-app] #153 not #99
[mk-app] #153 not #100
[mk-app] #153 not #101
[mk-app] #153 not #102
[mk-app] #153 not #103
[mk-app] #153 not #104
[mk-app] #153 not #105
[mk-app] #153 not #106
[mk-app] #153 not #107
[mk-app] #153 not #108
[mk-app] #153 not #109
[mk-app] #153 not #110
[mk-app] #153 not #111
[mk-app] #153 not #112
[mk-app] #153 not #113
[mk-app] #153 not #114
[mk-app] #153 not #115
[mk-app] #153 not #116
[mk-app] #153 not #117
[mk-app] #153 not #118
[mk-app] #153 not #119
[mk-app] #153 not #120
[mk-app] #153 not #121
[mk-app] #153 not #122
[mk-app] #153 not #123
[mk-app] #153 not #124
[mk-app] #153 not #125
[mk-app] #153 not #126
[mk-app] #153 not #127
[mk-app] #153 not #128
[mk-app] #153 not #129
[mk-app] #153 not #130
[mk-app] #153 not #131
[mk-app] #153 not #132
[mk-app] #153 not #133
[mk-app] #153 not #134
[mk-app] #153 not #135
[mk-app] #153 not #136
[mk-app] #153 not #137
[mk-app] #153 not #138
[mk-app] #153 not #139
[mk-app] #153 not #140
[mk-app] #153 not #141
[mk-app] #153 not #142
[mk-app] #153 not #143
[mk-app] #153 not #144
[mk-app] #153 not #145
[mk-app] #153 not #146
[mk-app] #153 not #146
[mk-app] #153 not #146
[mk-app] #153 not #146
[mk-app] #153 not #147
[mk-app] #153 not #146
[mk-app] #153 not #146
[mk-app] #153 not #146
[mk-app] #153 not #148
[mk-app] #153 not #146
[mk-app] #153 not #146
[mk-app] #153 not #146
[mk-app] #153 not #149
[mk-app] #153 not #146
[mk-app] #153 not #146
[mk-app] #153 not #146
[mk-app] #153 not #150
[mk-app] #153 not #146
[mk-app] #153 not #146
[mk-app] #153 not #146
[mk-app] #153 not #88
[mk-app] #153 not #89
[mk-app] #153 not #90
[mk-app] #153 not #91
[mk-app] #153 not #92
[mk-app] #153 not #93
[mk-app] #153 not #94
[mk-app] #153 not #95
[mk-app] #153 not #96
[mk-app] #153 not #97
[mk-app] #153 not #98
[mk-app] #153 not #99
[mk-app] #153 not #100
[mk-app] #153 not #101
[mk-app] #153 not #102
[mk-app] #153 not #103
[mk-app] #153 not #104
[mk-app] #153 not #105
[mk-app] #153 not #106
[mk-app] #153 not #107
[mk-app] #153 not #108
[mk-app] #153 not #109
[mk-app] #153 not #110
[mk-app] #153 not #111
[mk-app] #153 not #112
[mk-app] #153 not #113
[mk-app] #153 not #114
[mk-app] #153 not #115
[mk-app] #153 not #116
[mk-app] #153 not #117
[mk-app] #153 not #118
[mk-app] #153 not #119
[mk-app] #153 not #120
[mk-app] #153 not #121
[mk-app] #153 not #122
[mk-app] #153 not #123
[mk-app] #153 not #124
[mk-app] #153 not #125
[mk-app] #153 not #126
[mk-app] #153 not #127
[mk-app] #153 not #128
[mk-app] #153 not #129
[mk-app] #153 not #130
[mk-app] #153 not #131
[mk-app] #153 not #132
[mk-app] #153 not #133
[mk-app] #153 not #134
[mk-app] #153 not #135
[mk-app] #153 not #136
[mk-app] #153 not #137
[mk-app] #153 not #138
[mk-app] #153 not #139
[mk-app] #153 not #140
[mk-app] #153 not #141
[mk-app] #153 not #142
[mk-app] #153 not #143
[mk-app] #153 not #144
[mk-app] #153 not #145
[mk-app] #153 not #146
[mk-app] #153 not #147
[mk-app] #153 not #147
[mk-app] #153 not #147
[mk-app] #153 not #147
[mk-app] #153 not #148
[mk-app] #153 not #147
[mk-app] #153 not #147
[mk-app] #153 not #147
[mk-app] #153 not #149
[mk-app] #153 not #147
[mk-app] #153 not #147
[mk-app] #153 not #147
[mk-app] #153 not #150
[mk-app] #153 not #147
[mk-app] #153 not #147
[mk-app] #153 not #147
[mk-app] #153 not #147
[mk-app] #153 not #147
[mk-app] #153 not #147
[mk-app] #153 not #88
[mk-app] #153 not #89
[mk-app] #153 not #90
[mk-app] #153 not #91
[mk-app] #153 not #92
[mk-app] #153 not #93
[mk-app] #153 not #94
[mk-app] #153 not #95
[mk-app] #153 not #96
[mk-app] #153 not #97
[mk-app] #153 not #98
[mk-app] #153 not #99
[mk-app] #153 not #100
[mk-app] #153 not #101
[mk-app] #153 not #102
[mk-app] #153 not #103
[mk-app] #153 not #104
[mk-app] #153 not #105
[mk-app] #153 not #106
[mk-app] #153 not #107
[mk-app] #153 not #108
[mk-app] #153 not #109
[mk-app] #153 not #110
[mk-app] #153 not #111
[mk-app] #153 not #112
[mk-app] #153 not #113
[mk-app] #153 not #114
[mk-app] #153 not #115
[mk-app] #153 not #116
[mk-app] #153 not #117
[mk-app] #153 not #118
[mk-app] #153 not #119
[mk-app] #153 not #120
[mk-app] #153 not #121
[mk-app] #153 not #122
[mk-app] #153 not #123
[mk-app] #153 not #124
[mk-app] #153 not #125
[mk-app] #153 not #126
[mk-app] #153 not #127
[mk-app] #153 not #128
[mk-app] #153 not #129
[mk-app] #153 not #130
[mk-app] #153 not #131
[mk-app] #153 not #132
[mk-app] #153 not #133
[mk-app] #153 not #134
[mk-app] #153 not #135
[mk-app] #153 not #136
[mk-app] #153 not #137
[mk-app] #153 not #138
[mk-app] #153 not #139
[mk-app] #153 not #140
[mk-app] #153 not #141
[mk-app] #153 not #142
[mk-app] #153 not #143
[mk-app] #153 not #144
[mk-app] #153 not #145
[mk-app] #153 not #146
[mk-app] #153 not #147
[mk-app] #153 not #148
[mk-app] #153 not #148
[mk-app] #153 not #148
[mk-app] #153 not #148
[mk-app] #153 not #149
[mk-app] #153 not #148
[mk-app] #153 not #148
[mk-app] #153 not #148
[mk-app] #153 not #150
[mk-app] #153 not #148
[mk-app] #153 not #148
[mk-app] #153 not #148
[mk-app] #153 not #148
[mk-app] #153 not #148
[mk-app] #153 not #148
[mk-app] #153 not #148
[mk-app] #153 not #148
[mk-app] #153 not #148
[mk-app] #153 not #88
[mk-app] #153 not #89
[mk-app] #153 not #90
[mk-app] #153 not #91
[mk-app] #153 not #92
[mk-app] #153 not #93
[mk-app] #153 not #94
[mk-app] #153 not #95
[mk-app] #153 not #96
[mk-app] #153 not #97
[mk-app] #153 not #98
[mk-app] #153 not #99
[mk-app] #153 not #100
[mk-app] #153 not #101
[mk-app] #153 not #102
[mk-app] #153 not #103
[mk-app] #153 not #104
[mk-app] #153 not #105
[mk-app] #153 not #106
[mk-app] #153 not #107
[mk-app] #153 not #108
[mk-app] #153 not #109
[mk-app] #153 not #110
[mk-app] #153 not #111
[mk-app] #153 not #112
[mk-app] #153 not #113
[mk-app] #153 not #114
[mk-app] #153 not #115
[mk-app] #153 not #116
[mk-app] #153 not #117
[mk-app] #153 not #118
[mk-app] #153 not #119
[mk-app] #153 not #120
[mk-app] #153 not #121
[mk-app] #153 not #122
[mk-app] #153 not #123
[mk-app] #153 not #124
[mk-app] #153 not #125
[mk-app] #153 not #126
[mk-app] #153 not #127
[mk-app] #153 not #128
[mk-app] #153 not #129
[mk-app] #153 not #130
[mk-app] #153 not #131
[mk-app] #153 not #132
[mk-app] #153 not #133
[mk-app] #153 not #134
[mk-app] #153 not #135
[mk-app] #153 not #136
[mk-app] #153 not #137
[mk-app] #153 not #138
[mk-app] #153 not #139
[mk-app] #153 not #140
[mk-app] #153 not #141
[mk-app] #153 not #142
[mk-app] #153 not #143
[mk-app] #153 not #144
[mk-app] #153 not #145
[mk-app] #153 not #146
[mk-app] #153 not #147
[mk-app] #153 not #148
[mk-app] #153 not #149
[mk-app] #153 not #149
[mk-app] #153 not #149
[mk-app] #153 not #149
[mk-app] #153 not #150
[mk-app] #153 not #149
[mk-app] #153 not #149
[mk-app] #153 not #149
[mk-app] #153 not #149
[mk-app] #153 not #149
[mk-app] #153 not #149
[mk-app] #153 not #149
[mk-app] #153 not #149
[mk-app] #153 not #149
[mk-app] #153 not #149
[mk-app] #153 not #149
[mk-app] #153 not #149
[mk-app] #153 not #88
[mk-app] #153 not #89
[mk-app] #153 not #90
[mk-app] #153 not #91
[mk-app] #153 not #92
[mk-app] #153 not #93
[mk-app] #153 not #94
[mk-app] #153 not #95
[mk-app] #153 not #96
[mk-app] #153 not #97
[mk-app] #153 not #98
[mk-app] #153 not #99
[mk-app] #153 not #100
[mk-app] #153 not #101
[mk-app] #153 not #102
[mk-app] #153 not #103
[mk-app] #153 not #104
[mk-app] #153 not #105
[mk-app] #153 not #106
[mk-app] #153 not #107
[mk-app] #153 not #108
[mk-app] #153 not #109
[mk-app] #153 not #110
[mk-app] #153 not #111
[mk-app] #153 not #112
[mk-app] #153 not #113
[mk-app] #153 not #114
[mk-app] #153 not #115
[mk-app] #153 not #116
[mk-app] #153 not #117
[mk-app] #153 not #118
[mk-app] #153 not #119
[mk-app] #153 not #120
[mk-app] #153 not #121
[mk-app] #153 not #122
[mk-app] #153 not #123
[mk-app] #153 not #124
[mk-app] #153 not #125
[mk-app] #153 not #126
[mk-app] #153 not #127
[mk-app] #153 not #128
[mk-app] #153 not #129
[mk-app] #153 not #130
[mk-app] #153 not #131
[mk-app] #153 not #132
[mk-app] #153 not #133
[mk-app] #153 not #134
[mk-app] #153 not #135
[mk-app] #153 not #136
[mk-app] #153 not #137
[mk-app] #153 not #138
[mk-app] #153 not #139
[mk-app] #153 not #140
[mk-app] #153 not #141
[mk-app] #153 not #142
[mk-app] #153 not #143
[mk-app] #153 not #144
[mk-app] #153 not #145
[mk-app] #153 not #146
[mk-app] #153 not #147
[mk-app] #153 not #148
[mk-app] #153 not #149
[mk-app] #153 not #150
[mk-app] #153 not #150
[mk-app] #153 not #150
[mk-app] #153 not #150
[mk-app] #153 not #150
[mk-app] #153 not #150
[mk-app] #153 not #150
[mk-app] #153 not #150
[mk-app] #153 not #150
[mk-app] #153 not #150
[mk-app] #153 not #150
[mk-app] #153 not #150
[mk-app] #153 not #150
[mk-app] #153 not #150
[mk-app] #153 not #150
[mk-app] #153 not #150
[mk-app] #153 not #88
[mk-app] #153 not #89
[mk-app] #153 not #90
[mk-app] #153 not #91
[mk-app] #153 not #92
[mk-app] #153 not #93
[mk-app] #153 not #94
[mk-app] #153 not #95
[mk-app] #153 not #96
[mk-app] #153 not #97
[mk-app] #153 not #98
[mk-app] #153 not #99
[mk-app] #153 not #100
[mk-app] #153 not #101
[mk-app] #153 not #102
[mk-app] #153 not #103
[mk-app] #153 not #104
[mk-app] #153 not #105
[mk-app] #153 not #106
[mk-app] #153 not #107
[mk-app] #153 not #108
[mk-app] #153 not #109
[mk-app] #153 not #110
[mk-app] #153 not #111
[mk-app] #153 not #112
[mk-app] #153 not #113
[mk-app] #153 not #114
[mk-app] #153 not #115
[mk-app] #153 not #116
[mk-app] #153 not #117
[mk-app] #153 not #118
[mk-app] #153 not #119
[mk-app] #153 not #120
[mk-app] #153 not #121
[mk-app] #153 not #122
[mk-app] #153 not #123
[mk-app] #153 not #124
[mk-app] #153 not #125
[mk-app] #153 not #126
[mk-app] #153 not #127
[mk-app] #153 not #128
[mk-app] #153 not #129
[mk-app] #153 not #130
[mk-app] #153 not #131
[mk-app] #153 not #132
[mk-app] #153 not #133
[mk-app] #153 not #134
[mk-app] #153 not #135
[mk-app] #153 not #136
[mk-app] #153 not #137
[mk-app] #153 not #138
[mk-app] #153 not #139
[mk-app] #153 not #140
[mk-app] #153 not #141
[mk-app] #153 not #142
[mk-app] #153 not #143
[mk-app] #153 not #144
[mk-app] #153 not #145
[mk-app] #153 not #146
[mk-app] #153 not #147
[mk-app] #153 not #148
[mk-app] #153 not #149
[mk-app] #153 not #150
[mk-app] #153 not #88
[mk-app] #153 not #89
[mk-app] #153 not #90
[mk-app] #153 not #91
[mk-app] #153 not #92
[mk-app] #153 not #93
[mk-app] #153 not #94
[mk-app] #153 not #95
[mk-app] #153 not #96
[mk-app] #153 not #97
[mk-app] #153 not #98
[mk-app] #153 not #99
[mk-app] #153 not #100
[mk-app] #153 not #101
[mk-app] #153 not #102
[mk-app] #153 not #103
[mk-app] #153 not #104
[mk-app] #153 not #105
[mk-app] #153 not #106
[mk-app] #153 not #107
[mk-app] #153 not #108
[mk-app] #153 not #109
[mk-app] #153 not #110
[mk-app] #153 not #111
[mk-app] #153 not #112
[mk-app] #153 not #113
[mk-app] #153 not #114
[mk-app] #153 not #115
[mk-app] #153 not #116
[mk-app] #153 not #117
[mk-app] #153 not #118
[mk-app] #153 not #119
[mk-app] #153 not #120
[mk-app] #153 not #121
[mk-app] #153 not #122
[mk-app] #153 not #123
[mk-app] #153 not #124
[mk-app] #153 not #125
[mk-app] #153 not #126
[mk-app] #153 not #127
[mk-app] #153 not #128
[mk-app] #153 not #129
[mk-app] #153 not #130
[mk-app] #153 not #131
[mk-app] #153 not #132
[mk-app] #153 not #133
[mk-app] #153 not #134
[mk-app] #153 not #135
[mk-app] #153 not #136
[mk-app] #153 not #137
[mk-app] #153 not #138
[mk-app] #153 not #139
[mk-app] #153 not #140
[mk-app] #153 not #141
[mk-app] #153 not #142
[mk-app] #153 not #143
[mk-app] #153 not #144
[mk-app] #153 not #145
[mk-app] #153 not #146
[mk-app] #153 not #147
[mk-app] #153 not #148
[mk-app] #153 not #149
[mk-app] #153 not #150
[mk-app] #153 mkbv #2 #2 #2 #2 #88 #89 #90 #91 #92 #93 #94 #95 #96 #97 #98 #99 #100 #101 #102 #103 #104 #105 #106 #107 #108 #109 #110 #111 #112 #113 #114 #115 #116 #117 #118 #119 #120 #121 #122 #123 #124 #125 #126 #127 #128 #129 #130 #131 #132 #133 #134 #135 #136 #137 #138 #139 #140 #141 #142 #143 #144 #145 #146 #147 #148 #149 #150 #151 #2
[mk-app] #154 not #1
[mk-app] #157 mkbv #2
[mk-app] #158 or #154 #154
[inst-discovered] theory-solving 0x0 basic# ; #154
[mk-app] #156 = #154 #2
[instance] 0x0 #156
[attach-enode] #156 0
[end-of-instance]
[mk-app] #156 or #2 #2
[inst-discovered] theory-solving 0x0 basic# ; #156
[mk-app] #153 = #156 #2
[instance] 0x0 #153
[attach-enode] #153 0
[end-of-instance]
[eof]
