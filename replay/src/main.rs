// Replay driver: runs one operation of the real hyeo-ung-lang library per input line and prints the result.
// Input lines (tab separated):  <op> \t <arg> \t <arg> ...
//   BigNum arguments:  sign:limb,limb,...   (little endian u32 limbs; sign + or -), built with the public
//                      API only (from_vec + minus)
//   Num arguments:     <bignum>/<bignum>  built with Num::from_big_num (denominator >= 0) or the word NaN
// Output: one line per input line.
use hyeong::number::big_number::BigNum;
use hyeong::number::num::Num;
use hyeong::core::area::{calc, Area};
use hyeong::core::code::UnOptCode;
use hyeong::core::execute::{execute, execute_one};
use hyeong::core::optimize::optimize;
use hyeong::util::ext::num_to_unicode;
use hyeong::core::state::{State, UnOptState};
use hyeong::util::io::{CustomReader, CustomWriter};
use std::cmp::Ordering;
use std::io::{self, BufRead, Write};

fn big(s: &str) -> BigNum {
    let (sign, rest) = s.split_at(1);
    let v: Vec<u32> = rest[1..].split(',').map(|x| x.parse::<u32>().unwrap()).collect();
    let mut b = BigNum::from_vec(v);
    if sign == "-" {
        b.minus();
    }
    b
}

fn num(s: &str) -> Num {
    if s == "NaN" {
        return Num::nan();
    }
    let mut it = s.split('/');
    let u = big(it.next().unwrap());
    let d = big(it.next().unwrap());
    Num::from_big_num(u, d)
}

// prefix tree syntax: Q <l> <r> = `?`, E <l> <r> = `!`, H<n> = heart of type n, N = empty slot
fn tree(toks: &mut std::slice::Iter<&str>) -> Area {
    let t = toks.next().unwrap();
    if *t == "N" {
        Area::Nil
    } else if *t == "Q" || *t == "E" {
        let l = tree(toks);
        let r = tree(toks);
        Area::Val { type_: if *t == "Q" { 0 } else { 1 }, left: Box::new(l), right: Box::new(r) }
    } else {
        Area::new(t[1..].parse::<u8>().unwrap())
    }
}

fn ord(o: Option<Ordering>) -> &'static str {
    match o {
        None => "None",
        Some(Ordering::Less) => "Less",
        Some(Ordering::Equal) => "Equal",
        Some(Ordering::Greater) => "Greater",
    }
}

fn child_cat(k: usize) {
    // child mode: pop stack 0 k times through the REAL standard input reader and print the popped values
    use hyeong::core::execute::pop_stack_wrap;
    let mut st = UnOptState::new();
    let mut o: Vec<u8> = Vec::new();
    let mut e: Vec<u8> = Vec::new();
    let mut ipt = std::io::stdin();
    let mut outv: Vec<String> = Vec::new();
    for _ in 0..k {
        match pop_stack_wrap(&mut ipt, &mut o, &mut e, &mut st, 0) {
            Ok(n) => outv.push(if n.is_nan() { "NaN".to_string() } else { n.to_string() }),
            Err(_) => outv.push("ERR".to_string()),
        }
    }
    println!("{}", outv.join(" "));
}

fn child_exit(idx: usize) {
    // child mode: write 'A' to stdout (stack 1) and 'B' to stderr (stack 2) through the interpreter's wrappers using
    // buffering writers over the real streams, then pop stack idx (1 or 2), which must flush both and exit 0 / 1
    use hyeong::core::execute::{pop_stack_wrap, push_stack_wrap};
    let mut st = UnOptState::new();
    let mut o = std::io::BufWriter::new(std::io::stdout());
    let mut e = std::io::BufWriter::new(std::io::stderr());
    let mut ipt = CustomReader::new(String::new());
    push_stack_wrap(&mut o, &mut e, &mut st, 1, Num::from_num(65)).unwrap();
    push_stack_wrap(&mut o, &mut e, &mut st, 2, Num::from_num(66)).unwrap();
    let _ = pop_stack_wrap(&mut ipt, &mut o, &mut e, &mut st, idx);
    // not reached for idx 1/2; leak the writers so that nothing is flushed here if the pop returned
    std::mem::forget(o);
    std::mem::forget(e);
    std::process::exit(77);
}

fn main() {
    std::panic::set_hook(Box::new(|_| {}));
    if let Ok(v) = std::env::var("VREPLAY_CHILD_EXIT") {
        child_exit(v.parse().unwrap());
        return;
    }
    if let Ok(v) = std::env::var("VREPLAY_CHILD_CAT") {
        child_cat(v.parse().unwrap());
        return;
    }
    let stdin = io::stdin();
    let out = io::stdout();
    let mut out = out.lock();
    for line in stdin.lock().lines() {
        let line = line.unwrap();
        let f: Vec<String> = line.split('\t').map(|x| x.to_string()).collect();
        let res = std::panic::catch_unwind(move || run(&f));
        let r = match res {
            Ok(s) => s,
            Err(_) => "PANIC".to_string(),
        };
        writeln!(out, "{}", r).unwrap();
    }
}

fn run(f: &[String]) -> String {
    let f: Vec<&str> = f.iter().map(|x| x.as_str()).collect();
    {
        let r: String = match f[0] {
            "big.new" => format!("{}", BigNum::new(f[1].parse::<isize>().unwrap())),
            "big.show" => format!("{}", big(f[1])),
            "big.add" => format!("{}", &big(f[1]) + &big(f[2])),
            "big.sub" => format!("{}", &big(f[1]) - &big(f[2])),
            "big.mul" => format!("{}", &big(f[1]) * &big(f[2])),
            "big.div" => format!("{}", &big(f[1]) / &big(f[2])),
            "big.rem" => format!("{}", &big(f[1]) % &big(f[2])),
            "big.neg" => format!("{}", -&big(f[1])),
            "big.gcd" => format!("{}", BigNum::gcd(&big(f[1]), &big(f[2]))),
            "big.eq" => format!("{}", big(f[1]) == big(f[2])),
            "big.cmp" => ord(big(f[1]).partial_cmp(&big(f[2]))).to_string(),
            "big.add_assign" => { let mut a = big(f[1]); a += &big(f[2]); format!("{}", a) }
            "big.sub_assign" => { let mut a = big(f[1]); a -= &big(f[2]); format!("{}", a) }
            "big.mul_assign" => { let mut a = big(f[1]); a *= &big(f[2]); format!("{}", a) }
            "big.div_assign" => { let mut a = big(f[1]); a /= &big(f[2]); format!("{}", a) }
            "big.rem_assign" => { let mut a = big(f[1]); a %= &big(f[2]); format!("{}", a) }
            "big.to_base" => big(f[1]).to_string_base(f[2].parse().unwrap()).unwrap_or_else(|e| format!("ERR {}", e)),
            "big.from_base" => match BigNum::from_string_base(f[1].to_string(), f[2].parse().unwrap()) {
                Ok(b) => format!("{}", b),
                Err(e) => format!("ERR {}", e),
            },
            "big.roundtrip" => {
                let b = big(f[1]);
                let base: usize = f[2].parse().unwrap();
                let s = b.to_string_base(base).unwrap();
                let back = BigNum::from_string_base(s.clone(), base).unwrap();
                format!("{} {}", s, back == b)
            }
            "num.new" => format!("{}", Num::new(f[1].parse().unwrap(), f[2].parse().unwrap())),
            "num.show" => format!("{}", num(f[1])),
            "num.add" => format!("{}", &num(f[1]) + &num(f[2])),
            "num.mul" => format!("{}", &num(f[1]) * &num(f[2])),
            "num.add_assign" => { let mut a = num(f[1]); a += &num(f[2]); format!("{}", a) }
            "num.mul_assign" => { let mut a = num(f[1]); a *= &num(f[2]); format!("{}", a) }
            "big.from_string" => match BigNum::from_string(f[1].to_string()) {
                Ok(b) => format!("{}", b),
                Err(e) => format!("ERR {}", e),
            },
            "num.neg" => format!("{}", -&num(f[1])),
            "num.minus" => { let mut a = num(f[1]); a.minus(); format!("{}", a) }
            "num.flip" => { let mut a = num(f[1]); a.flip(); format!("{}", a) }
            "num.floor" => format!("{}", num(f[1]).floor()),
            "num.is_pos" => format!("{}", num(f[1]).is_pos()),
            "num.is_nan" => format!("{}", num(f[1]).is_nan()),
            "num.eq" => format!("{}", num(f[1]) == num(f[2])),
            "num.cmp" => ord(num(f[1]).partial_cmp(&num(f[2]))).to_string(),
            "area.calc" => {
                // area.calc \t <tree tokens space separated> \t <count> \t <values space separated>
                let tt: Vec<&str> = f[1].split(' ').collect();
                let a = tree(&mut tt.iter());
                let count: usize = f[2].parse().unwrap();
                let vals: Vec<Num> = if f[3].is_empty() { vec![] } else { f[3].split(' ').map(num).collect() };
                let mut k = 0usize;
                let r = calc(&a, count, || { let v = if k < vals.len() { vals[k].clone() } else { Num::nan() }; k += 1; Ok(v) });
                match r { Ok(t) => format!("{} {}", t, k), Err(_) => "ERR".to_string() }
            }
            "exec.steps" => {
                // exec.steps \t <cmd>;<cmd>;... \t <init stacks: idx=v v v|idx=..> \t <max steps>
                //   cmd = type,hangul,dot,<area tree tokens space separated>
                let mut st = UnOptState::new();
                for c in f[1].split(';') {
                    let p: Vec<&str> = c.splitn(4, ',').collect();
                    let tt: Vec<&str> = p[3].split(' ').collect();
                    let a = tree(&mut tt.iter());
                    st.push_code(UnOptCode::new(p[0].parse().unwrap(), p[1].parse().unwrap(), p[2].parse().unwrap(), (0, 0), a, String::new()));
                }
                let ncode = f[1].split(';').count();
                if !f[2].is_empty() {
                    for part in f[2].split('|') {
                        let mut kv = part.splitn(2, '=');
                        let idx: usize = kv.next().unwrap().parse().unwrap();
                        for v in kv.next().unwrap().split(' ').filter(|x| !x.is_empty()) {
                            st.push_stack(idx, num(v));
                        }
                    }
                }
                let max: usize = f[3].parse().unwrap();
                let stdin_text = if f.len() > 4 { f[4].replace("\\n", "\n").replace("\\r", "\r") } else { String::new() };
                let mut ipt = CustomReader::new(stdin_text);
                let mut o: Vec<u8> = Vec::new();
                let mut e: Vec<u8> = Vec::new();
                let mut loc = 0usize;
                let mut steps = 0usize;
                let mut failed = false;
                while loc < ncode && steps < max {
                    match execute_one(&mut ipt, &mut o, &mut e, st.clone(), loc) {
                        Ok((s2, l2)) => { st = s2; loc = l2; steps += 1; }
                        Err(_) => { failed = true; break; }
                    }
                }
                let mut idxs = st.get_all_stack_index();
                idxs.sort();
                let mut out = format!("loc={} cur={}", loc, st.current_stack());
                if failed { out = format!("ERROR at loc={}", loc); }
                for i in idxs {
                    let stack = st.get_stack(i).clone();
                    if !stack.is_empty() && !failed {
                        out.push_str(&format!(" |{}=", i));
                        out.push_str(&stack.iter().map(|x| x.to_string()).collect::<Vec<_>>().join(" "));
                    }
                }
                let hex = |v: &Vec<u8>| v.iter().map(|b| format!("{:02x}", b)).collect::<String>();
                out.push_str(&format!(" out={} err={}", hex(&o), hex(&e)));
                out
            }
            "opt.cmp" => {
                // opt.cmp \t <cmd>;<cmd>;...   runs the program unoptimised and at level 2 (as src/app/run.rs does) and
                // prints both outputs: O0:<stdout>|<stderr> O2:<stdout>|<stderr>
                let mut codes: Vec<UnOptCode> = Vec::new();
                for c in f[1].split(';') {
                    let p: Vec<&str> = c.splitn(4, ',').collect();
                    let tt: Vec<&str> = p[3].split(' ').collect();
                    let a = tree(&mut tt.iter());
                    codes.push(UnOptCode::new(p[0].parse().unwrap(), p[1].parse().unwrap(), p[2].parse().unwrap(), (0, 0), a, String::new()));
                }
                let mut o0: Vec<u8> = Vec::new();
                let mut e0: Vec<u8> = Vec::new();
                {
                    let mut ipt = CustomReader::new(String::new());
                    let mut st = UnOptState::new();
                    for c in codes.iter() {
                        st = execute(&mut ipt, &mut o0, &mut e0, st, c).unwrap();
                    }
                }
                let mut o2: Vec<u8> = Vec::new();
                let mut e2: Vec<u8> = Vec::new();
                {
                    let mut ipt = CustomReader::new(String::new());
                    let (mut st, rest) = optimize(codes.clone(), 2).unwrap();
                    for n in st.get_stack(1).clone().iter() { o2.extend(num_to_unicode(n).unwrap().to_string().as_bytes()); }
                    st.get_stack(1).clear();
                    for n in st.get_stack(2).clone().iter() { e2.extend(num_to_unicode(n).unwrap().to_string().as_bytes()); }
                    st.get_stack(2).clear();
                    for c in rest.iter() {
                        st = execute(&mut ipt, &mut o2, &mut e2, st, c).unwrap();
                    }
                }
                format!("O0:{}|{} O2:{}|{}", String::from_utf8_lossy(&o0), String::from_utf8_lossy(&e0), String::from_utf8_lossy(&o2), String::from_utf8_lossy(&e2)).replace('\n', "\\n")
            }
            "stdin.cat" => {
                // stdin.cat \t <hex of input bytes> \t <k>: feeds the bytes to a child process's real stdin
                let hex = f[1];
                let bytes: Vec<u8> = (0..hex.len() / 2).map(|i| u8::from_str_radix(&hex[2 * i..2 * i + 2], 16).unwrap()).collect();
                let mut child = std::process::Command::new(std::env::current_exe().unwrap())
                    .env("VREPLAY_CHILD_CAT", f[2])
                    .stdin(std::process::Stdio::piped())
                    .stdout(std::process::Stdio::piped())
                    .spawn()
                    .unwrap();
                {
                    let mut si = child.stdin.take().unwrap();
                    si.write_all(&bytes).unwrap();
                }
                let outp = child.wait_with_output().unwrap();
                String::from_utf8_lossy(&outp.stdout).trim().to_string()
            }
            "exit.pop" => {
                // exit.pop \t <idx>: child process pops stack idx after writing; reports status, stdout, stderr
                let outp = std::process::Command::new(std::env::current_exe().unwrap())
                    .env("VREPLAY_CHILD_EXIT", f[1])
                    .stdin(std::process::Stdio::null())
                    .output()
                    .unwrap();
                format!("status={} out={} err={}", outp.status.code().unwrap_or(-1), String::from_utf8_lossy(&outp.stdout), String::from_utf8_lossy(&outp.stderr))
            }
            "num.roundtrip" => { let a = num(f[1]); let s = a.to_string(); let b = Num::from_string(s.clone()); format!("{} {}", s, (a.is_nan() && b.is_nan()) || a == b) }
            _ => "ERR unknown op".to_string(),
        };
        r
    }
}
