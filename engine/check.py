#!/usr/bin/env python3
"""Property check driver (contract-based deductive verification with Verus).

  check.py <PROPERTY> [--tier quick|thorough]
  check.py --replay <replay file>

exit 0: every obligation of the property's units discharged, guards passed
exit 1: VIOLATION property=<id> replay=<path>   (a semantic verification failure in a function taken from /repo)
exit 2: undecided (anchor lost, unsupported construct, tool problem, guard tripped) -- never an alarm
"""
import argparse
import concurrent.futures as cf
import json
import os
import re
import subprocess
import sys
import time

HERE = os.path.dirname(os.path.abspath(__file__))
ROOT = os.path.dirname(HERE)
sys.path.insert(0, HERE)
import weave  # noqa: E402
from extract import AnchorLost  # noqa: E402
from rlex import LexError  # noqa: E402

REPO = os.environ.get("VERIF_REPO", "/repo")
CONTRACTS = os.path.join(ROOT, "contracts")
BUILD = os.path.join(ROOT, "build")
VERUS = os.environ.get("VERUS", "verus")

SEMANTIC = [
    "postcondition not satisfied",
    "precondition not satisfied",
    "invariant not satisfied",
    "loop invariant not satisfied",
    "possible arithmetic underflow/overflow",
    "possible division by zero",
    "assertion failed",
    "index out of bounds",
    "possible bit shift underflow/overflow",
    "decreases not satisfied",
    "value may be out of range",
    "recommendation not met",
    "could not prove termination",
    "precondition not satisfied before",
    "unreachable",
]
SEM_RE = re.compile("|".join(re.escape(s) for s in SEMANTIC))


def load_units():
    return json.load(open(os.path.join(CONTRACTS, "units.json")))


def load_props():
    out = {}
    for line in open(os.path.join(ROOT, "properties.jsonl"), encoding="utf-8"):
        line = line.strip()
        if line:
            p = json.loads(line)
            out[p["id"]] = p
    return out


def run_verus(path, extra=(), timeout=900):
    cmd = [VERUS, path, "--output-json", "--time", "--multiple-errors", "5"] + list(extra)
    t0 = time.time()
    try:
        p = subprocess.run(cmd, stdout=subprocess.PIPE, stderr=subprocess.PIPE, timeout=timeout, text=True,
                           cwd=os.path.dirname(path))
        rc, out, err = p.returncode, p.stdout, p.stderr
    except subprocess.TimeoutExpired as e:
        rc, out, err = -9, "", "TIMEOUT after %ds" % timeout
    wall = time.time() - t0
    js = None
    try:
        js = json.loads(out)
    except Exception:
        pass
    return {"cmd": " ".join(cmd), "rc": rc, "json": js, "stderr": err, "wall": wall}


ERR_RE = re.compile(r"^(error(?:\[E\d+\])?): (.*)$")
LOC_RE = re.compile(r"^\s*--> (.+?):(\d+):(\d+)")


def parse_errors(stderr, gen_basename):
    """Return list of {msg, line, block} for each `error:` diagnostic located in the generated file."""
    errs = []
    lines = stderr.split("\n")
    i = 0
    while i < len(lines):
        m = ERR_RE.match(lines[i])
        if m:
            msg = m.group(2)
            block = [lines[i]]
            loc = None
            j = i + 1
            while j < len(lines) and not ERR_RE.match(lines[j]) and not lines[j].startswith("note:") \
                    and not lines[j].startswith("verification results"):
                block.append(lines[j])
                lm = LOC_RE.match(lines[j])
                if lm and loc is None and os.path.basename(lm.group(1)) == gen_basename:
                    loc = int(lm.group(2))
                j += 1
            # later --> lines of the same diagnostic (e.g. failed precondition is elsewhere, call site is second)
            alls = [int(LOC_RE.match(b).group(2)) for b in block if LOC_RE.match(b)
                    and os.path.basename(LOC_RE.match(b).group(1)) == gen_basename]
            # labelled source lines of the first span group (`1845 |  fn f(..) {` ... "at the end of the function body"):
            # a postcondition inherited from a trait declaration is located there, not by a `-->` line
            gutter = []
            if alls and loc is not None:
                seen_arrow = 0
                for b in block:
                    if LOC_RE.match(b):
                        seen_arrow += 1
                        if seen_arrow > 1:
                            break
                        continue
                    gm = re.match(r"^\s*(\d+)\s*\|", b)
                    if gm and seen_arrow == 1:
                        n = int(gm.group(1))
                        if n not in alls and n not in gutter:
                            gutter.append(n)
            if not msg.startswith("aborting due to"):
                errs.append({"msg": msg, "line": loc, "lines": alls, "gutter": gutter, "block": "\n".join(block)})
            i = j
        else:
            i += 1
    return errs


def region_of(info, line):
    if line is None:
        return None
    for r in info["regions"]:
        a, b = r["gen_lines"]
        if a <= line <= b:
            return r
    return None


ASSUME_PATTERNS = [
    ("assume", re.compile(r"\bassume\s*\(")),
    ("admit", re.compile(r"\badmit\s*\(")),
    ("external_body", re.compile(r"#\[verifier::external_body\]")),
    ("external", re.compile(r"#\[verifier::external\]")),
    ("assume_specification", re.compile(r"\bassume_specification\b")),
    ("no_decreases", re.compile(r"exec_allows_no_decreases_clause")),
    ("uninterp", re.compile(r"\buninterp\s+spec\s+fn\b")),
    ("truncate", re.compile(r"#\[verifier::truncate\]")),
]


def scan_assumptions(gen_path, info):
    """List every trust-introducing construct in the generated file, with the item it is attached to."""
    lines = open(gen_path, encoding="utf-8").read().split("\n")
    hits = []
    for ln, text in enumerate(lines, 1):
        code = text.split("//")[0]
        for kind, rx in ASSUME_PATTERNS:
            if rx.search(code):
                # name: next `fn NAME` / `[path]` on this or following lines
                name = None
                for k in range(ln - 1, min(ln + 6, len(lines))):
                    m = re.search(r"\b(?:fn|struct)\s+([A-Za-z_0-9]+)", lines[k]) or re.search(r"\[([^\]]+)\]\s*\(", lines[k])
                    if m:
                        name = m.group(1).strip()
                        break
                reg = region_of(info, ln)
                hits.append({"kind": kind, "line": ln, "item": name, "region": reg["name"] if reg else None,
                             "region_mode": reg["mode"] if reg else None})
    return hits


def allowed(hit, allow):
    for a in allow:
        if a["kind"] == hit["kind"] and (a.get("item") in (None, "*", hit["item"])) and \
                (a.get("region_mode") in (None, hit["region_mode"])):
            return a
    return None


def make_canary(gen_path, info, out_path):
    """Copy of the generated file with `assert(false)` as first statement of every function under
    verification. Verus must reject each of them (otherwise the precondition is contradictory)."""
    lines = open(gen_path, encoding="utf-8").read().split("\n")
    expected = {}
    inserts = {}
    for r in info["regions"]:
        if r.get("mode") != "verify":
            continue
        a, b = r["gen_lines"]
        # body open = first line (after the signature) that starts a `{` at depth 0: use token search
        text = "\n".join(lines[a - 1:b])
        stripped = weave.strip_annotations(text)
        # find the body-open brace position in the *unstripped* text: the first `{` outside annotation blocks
        # that follows `fn`.
        pos = _body_open_pos(text)
        if pos is None:
            continue
        ln = a + text.count("\n", 0, pos)
        inserts.setdefault(ln, []).append((pos - (text.rfind("\n", 0, pos) + 1), r["name"]))
    # Verus wants `hide(f);` headers first in a body: a canary goes after them
    after_hide = {}
    for ln in list(inserts):
        j = ln  # 0-based index of the line after ln
        last = None
        while j < len(lines) and (not lines[j].strip() or lines[j].strip().startswith("//") or re.match(r"^\s*hide\(.*\);\s*(//.*)?$", lines[j])):
            if re.match(r"^\s*hide\(", lines[j]):
                last = j + 1
            j += 1
        if last is not None and lines[ln - 1].rstrip().endswith("{"):
            after_hide[last] = inserts.pop(ln)
    out = []
    for ln, text in enumerate(lines, 1):
        if ln in inserts:
            col, name = inserts[ln][0]
            text = text[:col + 1] + " assert(false); /*CANARY " + name + "*/ " + text[col + 1:]
            expected[name] = ln
        if ln in after_hide:
            col, name = after_hide[ln][0]
            text = text + " assert(false); /*CANARY " + name + "*/ "
            expected[name] = ln
        out.append(text)
    open(out_path, "w", encoding="utf-8").write("\n".join(out))
    return expected


def _body_open_pos(text):
    """offset of the body-opening `{` of the (single) fn in a woven region text."""
    skip = False
    off = 0
    depth = 0
    seen_fn = False
    for line in text.split("\n"):
        s = line.strip()
        if s == "//@+":
            skip = True
        elif s == "//@-":
            skip = False
        elif not skip and not s.startswith("//"):
            code = line.split("//")[0]
            for k, ch in enumerate(code):
                if not seen_fn and re.match(r"fn\b", code[k:]) and (k == 0 or not (code[k - 1].isalnum() or code[k - 1] == "_")):
                    seen_fn = True
                if ch in "([":
                    depth += 1
                elif ch in ")]":
                    depth -= 1
                elif ch == "{" and depth == 0 and seen_fn:
                    return off + k
        off += len(line) + 1
    return None


_ann_cache = {}


def _in_annotation(gen_path, line):
    """True if `line` (1-based) of the generated file lies inside a //@+ ... //@- block."""
    if gen_path not in _ann_cache:
        marks = set()
        skip = False
        for ln, text in enumerate(open(gen_path, encoding="utf-8").read().split("\n"), 1):
            s = text.strip()
            if s == "//@+":
                skip = True
            elif s == "//@-":
                skip = False
            elif skip:
                marks.add(ln)
        _ann_cache[gen_path] = marks
    return line in _ann_cache[gen_path]


def count_clauses(gen_path, info):
    """Count contract clauses woven into verified regions (requires/ensures/invariant/decreases/assert)."""
    lines = open(gen_path, encoding="utf-8").read().split("\n")
    total = {"requires": 0, "ensures": 0, "invariant": 0, "decreases": 0, "assert": 0, "proof_blocks": 0}
    per = {}
    for r in info["regions"]:
        if r.get("mode") != "verify":
            continue
        a, b = r["gen_lines"]
        skip = False
        c = dict.fromkeys(total, 0)
        section = None
        for line in lines[a - 1:b]:
            s = line.strip()
            if s == "//@+":
                skip = True
                section = None
                continue
            if s == "//@-":
                skip = False
                continue
            if not skip:
                continue
            code = s.split("//")[0]
            for kw in ("requires", "ensures", "invariant", "decreases"):
                if re.match(kw + r"\b", code):
                    section = kw
                    code = code[len(kw):]
            if re.match(r"proof\s*\{", code):
                c["proof_blocks"] += 1
                section = None
            c["assert"] += len(re.findall(r"\bassert\s*(\(|forall)", code))
            if section and code.strip() and not re.match(r"proof\s*\{", code):
                # one clause per top-level comma-terminated line (approximation: count lines ending with ',')
                if code.rstrip().endswith(","):
                    c[section] += 1
        per[r["name"]] = c
        for k in total:
            total[k] += c[k]
    return total, per


def check_unit_once(name, unit, tier, contract_only=()):
    res = {"unit": name, "status": "ok", "violations": [], "undecided": [], "functions": [], "assumptions": [],
           "wall": 0.0}
    gen = os.path.join(BUILD, "gen", name + ".rs")
    t0 = time.time()
    try:
        info = weave.build_unit(REPO, CONTRACTS, unit, gen, contract_only=contract_only)
    except (AnchorLost, LexError, ValueError, IndexError, KeyError) as e:
        res["status"] = "undecided"
        res["undecided"].append({"why": "extraction/weaving failed: %s: %s" % (type(e).__name__, e)})
        return res
    res["info"] = info
    bad = weave.identity_check(gen, info)
    if bad:
        res["status"] = "undecided"
        res["undecided"].append({"why": "identity check failed for %s" % bad})
        return res
    canary = os.path.join(BUILD, "gen", name + "_canary.rs")
    expected = make_canary(gen, info, canary)
    rlimit = str(unit.get("rlimit", 60))
    with cf.ThreadPoolExecutor(max_workers=2) as ex:
        f_main = ex.submit(run_verus, gen, ["--rlimit", rlimit])
        f_can = ex.submit(run_verus, canary, ["--rlimit", rlimit])
        main = f_main.result()
        can = f_can.result()
    res["verus"] = {"cmd": main["cmd"], "rc": main["rc"], "wall": main["wall"]}
    res["canary"] = {"cmd": can["cmd"], "rc": can["rc"], "wall": can["wall"]}
    js = main["json"]
    base = os.path.basename(gen)
    errs = parse_errors(main["stderr"], base)
    vr = (js or {}).get("verification-results", {})
    res["verified"] = vr.get("verified", 0)
    res["errors"] = vr.get("errors", 0)
    # per-function solver times
    try:
        fb = []
        for m in js["times-ms"]["smt"]["smt-run-module-times"]:
            fb += m["function-breakdown"]
        res["functions"] = [{"function": f["function"], "mode": f.get("mode:", f.get("mode")),
                             "smt_s": f["time-micros"] / 1e6, "rlimit": f["rlimit"], "success": f["success"]}
                            for f in fb]
    except Exception:
        pass
    if js is None or vr.get("encountered-vir-error") or (main["rc"] != 0 and not errs):
        res["status"] = "undecided"
        res["undecided"].append({"why": "verus did not produce a verification result", "stderr": main["stderr"][-3000:]})
        return res
    for e in errs:
        reg = None
        # attribute to the innermost woven region among all locations of the diagnostic (call site for
        # failed preconditions, function for postconditions)
        for ln in e["lines"]:
            r = region_of(info, ln)
            if r is not None and r.get("mode") == "verify":
                reg = r
        if reg is None:
            # no `-->` location lies in a function under verification: use the labelled source lines (a postcondition
            # inherited from a trait declaration is located that way)
            for ln in e.get("gutter", []):
                r = region_of(info, ln)
                if r is not None and r.get("mode") == "verify":
                    reg = r
        if reg is None:
            reg = region_of(info, e["line"])
        sem = bool(SEM_RE.search(e["msg"]))
        # is the failing program point part of the code taken from /repo (e.g. the call of a function whose
        # precondition fails), or does it lie inside woven annotation text (assert / invariant / lemma call / ensures)?
        site_in_code = False
        if reg is not None and "precondition not satisfied" in e["msg"]:
            a, b = reg["gen_lines"]
            inside = [ln for ln in e["lines"] if a <= ln <= b]
            if inside:
                site_in_code = not _in_annotation(gen, inside[-1])
        rec = {"msg": e["msg"], "gen_line": e["line"], "region": reg["name"] if reg else None,
               "site_in_code": site_in_code,
               "contract_only": bool(reg and reg.get("contract_only")),
               "region_mode": reg.get("mode") if reg else None,
               "repo_loc": ("%s:%d-%d" % reg["loc"]) if reg and "loc" in reg else None,
               "changed_vs_contract": reg.get("changed") if reg else None,
               "detail": e["block"][:4000]}
        if sem and reg is not None and reg.get("mode") == "verify":
            res["violations"].append(rec)
        else:
            rec["why"] = "non-semantic diagnostic or failure outside code taken from /repo"
            res["undecided"].append(rec)
    if vr.get("errors", 0) and not res["violations"] and not res["undecided"]:
        res["undecided"].append({"why": "verus reported errors that could not be parsed", "stderr": main["stderr"][-3000:]})
    # canary: every verified region must fail its assert(false)
    cerrs = parse_errors(can["stderr"], os.path.basename(canary))
    clines = set()
    for e in cerrs:
        if "assertion failed" in e["msg"]:
            clines.update(e["lines"])
    missing = [n for n, ln in expected.items() if ln not in clines]
    res["canaries"] = {"expected": len(expected), "rejected": len(expected) - len(missing), "missing": missing}
    if can["json"] is None:
        res["undecided"].append({"why": "canary run produced no result", "stderr": can["stderr"][-2000:]})
    elif missing:
        # a function that already fails for another reason may mask its canary: only count as vacuity if that
        # function has no error of its own
        failing = {v["region"] for v in res["violations"]} | {u.get("region") for u in res["undecided"]}
        really = [m for m in missing if m not in failing]
        if really:
            res["undecided"].append({"why": "vacuity guard: assert(false) accepted at entry of %s" % really})
    # assumptions
    allow = json.load(open(os.path.join(CONTRACTS, "assumptions_allow.json")))
    hits = scan_assumptions(gen, info)
    res["assumptions"] = hits
    unlisted = [h for h in hits if not allowed(h, allow)]
    if unlisted:
        res["undecided"].append({"why": "assumption scan: unlisted trust-introducing construct(s)", "hits": unlisted})
    res["clauses"], res["clauses_per_fn"] = count_clauses(gen, info)
    if tier == "thorough" and not res["violations"] and not res["undecided"]:
        # stability probe: the same queries with 60 % of the resource limit; an obligation that flips is reported in the
        # evidence as unstable (it does not change the verdict)
        low = run_verus(gen, ["--rlimit", str(max(5, int(int(rlimit) * 0.6)))])
        lj = low["json"] or {}
        flips = []
        try:
            for m in lj["times-ms"]["smt"]["smt-run-module-times"]:
                for f in m["function-breakdown"]:
                    if not f["success"]:
                        flips.append(f["function"])
        except Exception:
            pass
        res["stability"] = {"rlimit": max(5, int(int(rlimit) * 0.6)), "verified": (lj.get("verification-results") or {}).get("verified"),
                            "unstable_functions": flips}
    if res["violations"]:
        res["status"] = "violation"
    elif res["undecided"]:
        res["status"] = "undecided"
    res["wall"] = time.time() - t0
    return res




def check_unit(name, unit, tier):
    """Run once; if the weaving of a *changed* function produced text Verus cannot even parse/resolve (the proof
    hints no longer fit the new body), retry with that function in contract-only mode (signature contract kept,
    body hints dropped). Semantic failures of a contract-only function need confirmation by replay (report.py)."""
    res = check_unit_once(name, unit, tier)
    broken = set()
    for u in res.get("undecided", []):
        if u.get("region") and u.get("region_mode") == "verify" and u.get("changed_vs_contract") and "msg" in u:
            broken.add(u["region"])
    if not broken and res.get("status") == "undecided":
        # syntax errors abort before regions are attributed by verification: use the first located error
        for u in res.get("undecided", []):
            if u.get("region") and u.get("region_mode") == "verify" and "msg" in u:
                broken.add(u["region"])
    if broken:
        res2 = check_unit_once(name, unit, tier, contract_only=tuple(broken))
        res2["contract_only_retry"] = sorted(broken)
        return res2
    return res


def load_known():
    p = os.path.join(ROOT, "known_findings.json")
    if os.path.exists(p):
        return json.load(open(p))
    return {"findings": []}


def main():
    ap = argparse.ArgumentParser()
    ap.add_argument("property", nargs="?")
    ap.add_argument("--tier", default=os.environ.get("VERIF_TIER", "quick"))
    ap.add_argument("--replay")
    ap.add_argument("--no-evidence", action="store_true")
    args = ap.parse_args()
    if args.replay:
        import replay
        sys.exit(replay.replay_file(args.replay))
    prop = args.property
    tier = args.tier if args.tier in ("quick", "thorough") else "quick"
    seed = int(os.environ.get("VERIF_SEED", "0") or 0)
    t0 = time.time()
    units = load_units()
    mine = {n: u for n, u in units.items() if prop in u.get("properties", [])}
    if not mine:
        print("no units serve property %s" % prop)
        sys.exit(2)
    os.makedirs(os.path.join(BUILD, "gen"), exist_ok=True)
    results = {}
    with cf.ThreadPoolExecutor(max_workers=8) as ex:
        futs = {ex.submit(check_unit, n, u, tier): n for n, u in mine.items()}
        for f in cf.as_completed(futs):
            results[futs[f]] = f.result()
    import report
    rc = report.finish(prop, tier, seed, results, time.time() - t0, load_known(), no_evidence=args.no_evidence)
    sys.exit(rc)


if __name__ == "__main__":
    main()
