#!/usr/bin/env python3
"""Run every seeded change in /verif/seeded against the check of its property (applies the patch to /repo, runs the
check, reverts). Writes seeded/RESULTS.md and updates each meta.json. Never commits anything to /repo."""
import json, os, subprocess, sys, re
ROOT = os.path.dirname(os.path.dirname(os.path.abspath(__file__)))
rows = []
only = sys.argv[1:]
for d in sorted(os.listdir(os.path.join(ROOT, "seeded"))):
    p = os.path.join(ROOT, "seeded", d)
    if not os.path.isfile(os.path.join(p, "patch.diff")) or (only and d not in only):
        continue
    meta = json.load(open(os.path.join(p, "meta.json")))
    prop = meta.get("property", d[:3])
    st = subprocess.run(["git", "-C", "/repo", "status", "--porcelain", "--untracked-files=no"], capture_output=True, text=True).stdout.strip()
    if st:
        sys.exit("/repo has uncommitted changes; refusing to run")
    a = subprocess.run(["git", "-C", "/repo", "apply", os.path.join(p, "patch.diff")], capture_output=True, text=True)
    if a.returncode:
        rows.append((d, prop, "patch does not apply", ""))
        continue
    try:
        r = subprocess.run([os.path.join(ROOT, "check"), prop, "--no-evidence"], capture_output=True, text=True, timeout=1800)
    finally:
        subprocess.run(["git", "-C", "/repo", "checkout", "--", "."])
    out = r.stdout
    fo = sorted(set(re.findall(r"failed obligation (\S+)", out)))
    und = "UNDECIDED" in out
    inp = "no-failing-input-found" not in out and "VIOLATION" in out
    verdict = {0: "MISSED (exit 0)", 1: "caught (exit 1)", 2: "undecided (exit 2)"}.get(r.returncode, "rc=%d" % r.returncode)
    how = ("verus obligations: " + ", ".join(fo)) if fo else ("verus undecided; confirmed by replay of a concrete input" if (und and r.returncode == 1) else "")
    if r.returncode == 1:
        how += "; failing input replayed" if inp else "; no-failing-input-found"
    rows.append((d, prop, verdict, how))
    meta["verif_result"] = {"check": "./check %s" % prop, "exit": r.returncode, "failed_obligations": fo, "failing_input_replayed": inp}
    json.dump(meta, open(os.path.join(p, "meta.json"), "w"), indent=1, ensure_ascii=False)
    print(d, verdict, how, flush=True)
with open(os.path.join(ROOT, "seeded", "RESULTS.md"), "w") as f:
    f.write("# Seeded changes vs. checks\n\nEach change compiles, passes the existing test suite, and fails its demo (verified in a scratch worktree).\n\n| change | property | result | how |\n|---|---|---|---|\n")
    for r in rows:
        f.write("| %s | %s | %s | %s |\n" % r)
