#!/usr/bin/env python3
"""Apply each behaviour-preserving refactoring in /verif/seeded_refactor to /repo, run ALL claimed checks, revert.
A check must never exit 1 on these (exit 0 = still proved, exit 2 = undecided is acceptable)."""
import json, os, subprocess, sys
ROOT = os.path.dirname(os.path.dirname(os.path.abspath(__file__)))
props = [c["property_id"] for c in json.load(open(os.path.join(ROOT, "MANIFEST.json")))["checks"]]
rows = []
for d in sorted(os.listdir(os.path.join(ROOT, "seeded_refactor")), key=lambda x: int(x[1:]) if x[1:].isdigit() else 0):
    p = os.path.join(ROOT, "seeded_refactor", d)
    if not os.path.isfile(os.path.join(p, "patch.diff")):
        continue
    if subprocess.run(["git", "-C", "/repo", "apply", os.path.join(p, "patch.diff")]).returncode:
        rows.append((d, "patch does not apply")); continue
    res = {}
    try:
        for pr in props:
            r = subprocess.run([os.path.join(ROOT, "check"), pr, "--no-evidence"], capture_output=True, text=True, timeout=3600)
            res[pr] = r.returncode
    finally:
        subprocess.run(["git", "-C", "/repo", "checkout", "--", "."])
    meta = json.load(open(os.path.join(p, "meta.json")))
    rows.append((d, meta.get("function"), res))
    print(d, meta.get("function"), res, flush=True)
with open(os.path.join(ROOT, "seeded_refactor", "RESULTS.md"), "w") as f:
    f.write("# Behaviour-preserving refactorings vs. checks (exit 1 would be a false alarm)\n\n| change | function | exit codes per property |\n|---|---|---|\n")
    for r in rows:
        f.write("| %s | %s | %s |\n" % (r[0], r[1], r[2] if len(r) > 2 else ""))
