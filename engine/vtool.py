#!/usr/bin/env python3
"""Developer helper: print the rewritten text of a /repo function as the skeleton of a contract region,
or generate a unit file without running the verifier.

  vtool.py skel 'src/number/big_number.rs | impl BigNum | add_core | ret=r'
  vtool.py gen <unit>          -> writes /verif/build/gen/<unit>.rs and prints its path
"""
import json
import os
import sys

HERE = os.path.dirname(os.path.abspath(__file__))
sys.path.insert(0, HERE)
import weave  # noqa: E402

REPO = os.environ.get("VERIF_REPO", "/repo")
ROOT = os.path.dirname(HERE)


def pretty(tl):
    out = []
    ind = 0
    line = []

    def flush():
        nonlocal line
        if line:
            out.append("    " * ind + " ".join(line))
        line = []

    pd = 0
    for i, t in enumerate(tl):
        if t in ("(", "["):
            pd += 1
        elif t in (")", "]"):
            pd -= 1
        if t == "{":
            line.append(t)
            flush()
            ind += 1
        elif t == "}":
            flush()
            ind -= 1
            line.append(t)
            nxt = tl[i + 1] if i + 1 < len(tl) else ""
            if nxt not in ("else", ")", ",", ";", "."):
                flush()
        elif t == ";" and pd == 0:
            line.append(t)
            flush()
        else:
            line.append(t)
    flush()
    s = "\n".join(out)
    for a, b in ((" ;", ";"), (" ,", ","), ("( ", "("), (" )", ")"), (" . ", "."), (" :: ", "::"), ("& ", "&"),
                 (" (", "("), ("[ ", "["), (" ]", "]"), (" [", "["), (" :", ":"), ("! ", "!"), (" ?", "?")):
        s = s.replace(a, b)
    for kw in ("if", "while", "for", "in", "match", "return", "as", "let", "=", "<", ">", "+", "-", "*", "/", "%",
               "==", "!=", "<=", ">=", "&&", "||", "->", "=>", "^", "+=", "-=", "*=", "/=", "%=", "^=", ",", "<<", ">>"):
        s = s.replace(" " + kw + "(", " " + kw + " (")
    return s


def main():
    cmd = sys.argv[1]
    if cmd == "skel":
        for hdr in sys.argv[2:]:
            reg = weave.Region("real", hdr, [], "-", 0)
            log = []
            tl, bo, loc = weave.repo_fn_tokens(REPO, reg, log)
            print("//@real " + hdr)
            print(pretty(tl))
            print("//@end")
            print()
            sys.stderr.write(json.dumps(log) + "\n")
    elif cmd == "gen":
        units = json.load(open(os.path.join(ROOT, "contracts", "units.json")))
        name = sys.argv[2]
        out = os.path.join(ROOT, "build", "gen", name + ".rs")
        info = weave.build_unit(REPO, os.path.join(ROOT, "contracts"), units[name], out)
        bad = weave.identity_check(out, info)
        print(out, "identity-check-failures:", bad)
    else:
        sys.exit("unknown command")


if __name__ == "__main__":
    main()
