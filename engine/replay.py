"""`check --replay <file>`: print the failed obligation(s) and re-run the stored input on the real code."""
import json
import sys


def replay_file(path):
    doc = json.load(open(path, encoding="utf-8"))
    print("property %s, function %s (%s)" % (doc.get("property"), doc.get("function"), doc.get("repo_location")))
    for fo in doc.get("failed_obligations", []):
        print("failed obligation: %s -- %s" % (fo.get("obligation"), fo.get("verifier_message")))
        if fo.get("verifier_output"):
            print(fo["verifier_output"])
    import cex
    still, text = cex.replay_doc(doc)
    print(text)
    if still is None:
        print("no-failing-input-found: the obligation above is the evidence")
        return 1
    if still:
        print("REPRODUCED on the current /repo tree")
        return 1
    print("not reproduced on the current /repo tree")
    return 0
