"""Weave contract annotations (contracts/*.vrs) into function text re-extracted from /repo.

Contract file syntax (everything else is copied verbatim into the generated Verus file):

  //@real <repo file> | <container header or -> | <fn name> | key=val ...
  <function text in Verus syntax; annotation lines are marked>
  //@end

  inside a region, annotation text (never part of /repo) is either
     - the lines between a line `//@+` and a line `//@-`, or
     - a single line ending in `//@`
  all remaining text of the region must be token-identical to the (rewritten) function in /repo
  on the tree the contracts were written for; on any other tree the annotations are transplanted
  to the aligned positions of the new token stream.

  keys: ret=<name>   named return value (rewrite `-> T` to `-> (name: T)`)
        ops=<T>      apply R1 with op_*_<T> calls
        lift=<name>  the method is lifted out of its (operator trait) impl as free fn <name>; self -> self_
        out=<T>      type that replaces Self / Self::Output when lifting
        rw=a,b       extra rewrites: forcont (R2), narrow (R3), breakval (R5), charsenum (R6), revcollect (R7)
        trusted=1    region is emitted as external_body even in verify mode (assumed contract; listed)

  //@struct <repo file> | struct|enum | <Name>
  <item text>         must be token-identical to /repo, otherwise the unit is undecided (exit 2)
  //@end

  //@lemma <name>
  proof fn ... { body }     stubbed (external_body) when the file is included in stub mode
  //@end
"""
import difflib
import os
import re
from rlex import lex, LexError
import extract as X
from extract import AnchorLost


class Region:
    def __init__(self, kind, header, lines, file, lineno):
        self.kind = kind  # real | struct | lemma
        self.header = header
        self.lines = lines
        self.file = file
        self.lineno = lineno
        self.opts = {}
        if kind == "real":
            parts = [p.strip() for p in header.split("|")]
            self.rfile, self.container, self.fn = parts[0], parts[1], parts[2]
            for kv in (parts[3].split() if len(parts) > 3 else []):
                k, _, v = kv.partition("=")
                self.opts[k] = v
            self.name = self.opts.get("derive_name") or self.opts.get("lift") or (
                (self.container.replace("impl ", "").replace(" ", "_") + "::" if self.container != "-" else "") + self.fn)
        elif kind == "struct":
            parts = [p.strip() for p in header.split("|")]
            self.rfile, self.skind, self.sname = parts
            self.name = self.skind + " " + self.sname
        else:
            self.name = header.strip()


def parse_contract(path, defines=()):
    """Return list of segments: ('text', str) | ('region', Region).
    Lines between `//@if NAME` and `//@endif` are kept only if NAME is among the unit part's defines."""
    segs = []
    cur = []
    region = None
    keep = True
    for ln, line in enumerate(open(path, encoding="utf-8").read().split("\n"), 1):
        s = line.strip()
        if s.startswith("//@if "):
            keep = s[6:].strip() in defines
            continue
        if s == "//@endif":
            keep = True
            continue
        if not keep:
            continue
        m = re.match(r"//@(real|struct|lemma)\s+(.*)$", s)
        if m and region is None:
            if cur:
                segs.append(("text", "\n".join(cur) + "\n"))
            cur = []
            region = Region(m.group(1), m.group(2), [], path, ln)
            continue
        if s == "//@end" and region is not None:
            region.lines = cur
            segs.append(("region", region))
            cur = []
            region = None
            continue
        cur.append(line)
    if region is not None:
        raise AnchorLost("%s: unterminated region %s" % (path, region.header))
    if cur:
        segs.append(("text", "\n".join(cur)))
    return segs


def split_region(lines):
    """Split region lines into items: ('ann', text) and ('real', text)."""
    items = []
    buf = []
    ann = None
    for line in lines:
        s = line.strip()
        if s == "//@+":
            if buf:
                items.append(("real", "\n".join(buf)))
                buf = []
            ann = []
            continue
        if s == "//@-":
            items.append(("ann", "\n".join(ann)))
            ann = None
            continue
        if ann is not None:
            ann.append(line)
            continue
        if s.endswith("//@"):
            if buf:
                items.append(("real", "\n".join(buf)))
                buf = []
            items.append(("ann", line.rstrip()[:-3].rstrip()))
            continue
        buf.append(line)
    if buf:
        items.append(("real", "\n".join(buf)))
    return items


def repo_fn_tokens(repo, reg, log):
    """Extract the function named by region `reg` from the repo and apply its rewrites.
    Returns (token texts, body_open index, (file, first line, last line))."""
    src, toks = X.file_tokens(repo, reg.rfile)
    if reg.container == "-":
        lo, hi = 0, len(toks)
    else:
        lo, hi = X.find_container(toks, reg.container)
    start, bo, bc = X.find_fn(toks, lo, hi, reg.fn)
    tl = [t.text for t in toks[start:bc + 1]]
    body_open = bo - start
    loc = (reg.rfile, X.line_of(src, toks[start].start), X.line_of(src, toks[bc].end))
    applied = []
    o = reg.opts
    if "derive_site" in o:
        # R11 closure specialisation: this function (e.g. area::calc, generic over a FnMut parameter) is specialised
        # to the closure passed at one call site: the closure parameter is dropped, the variables the closure
        # captures become parameters (names/types given in the contract header), and every call `pop()` in the body
        # is replaced by the closure's body taken from the call site.
        sfile, scont, sfn = o["derive_site"].split(":")
        ssrc, stoks = X.file_tokens(repo, sfile)
        if scont == "-":
            slo, shi = 0, len(stoks)
        else:
            slo, shi = X.find_container(stoks, scont)
        s0, sbo, sbc = X.find_fn(stoks, slo, shi, sfn)
        site_body = [t.text for t in stoks[sbo:sbc + 1]]
        _, c, closure_body = X.rw_closure_call(site_body, reg.fn, "__x", "")
        if c != 1 or closure_body is None:
            raise AnchorLost("derive: call of %s with a closure not found exactly once in %s" % (reg.fn, sfn))
        for pair in [p for p in o.get("derive_subst", "").split(";") if p]:
            a, b = pair.split("=>")
            closure_body, _ = X.rw_patterns(closure_body, [(a.replace("_", " "), b.replace("_", " "))])
        sig, body = tl[:body_open], tl[body_open:]
        k = sig.index("fn")
        lp = k + 1
        while sig[lp] != "(":
            lp += 1
        rp = X._close(sig, lp)
        params, cur, d = [], [], 0
        for t in sig[lp + 1:rp]:
            if t in ("(", "[", "<"):
                d += 1
            elif t in (")", "]", ">"):
                d -= 1
            if t == "," and d == 0:
                params.append(cur)
                cur = []
            else:
                cur.append(t)
        if cur:
            params.append(cur)
        drop = o["derive_drop"]
        params = [p for p in params if drop not in p[:2]]
        newparams = []
        for p in params:
            newparams += p + [","]
        newparams += X.T(o["derive_params"].replace("~", " "))
        ret = sig[rp + 1:]
        if "where" in ret:
            ret = ret[:ret.index("where")]
        sig = ["fn", o["derive_name"]] + X.T(o.get("derive_generics", "").replace("~", " ")) + ["("] + newparams + [")"] + ret \
            + X.T(o.get("derive_where", "").replace("~", " "))
        # substitute `drop ( )` by the closure body
        nb = []
        i = 0
        cnt = 0
        while i < len(body):
            if body[i] == drop and body[i + 1:i + 3] == ["(", ")"]:
                nb += closure_body
                i += 3
                cnt += 1
            else:
                nb.append(body[i])
                i += 1
        tl = sig + nb
        body_open = len(sig)
        applied.append(("closure_specialisation", cnt))
    if "lift" in o:
        # drop visibility, rename fn, rename self
        sig = tl[:body_open]
        i = sig.index("fn")
        sig = sig[i:]
        sig[1] = o["lift"]
        tl = sig + tl[body_open:]
        body_open = len(sig)
        tl, c = X.rw_self_rename(tl, o.get("out", "Self"))
        # `self_` parameter needs a type: `( self_ ,` -> `( self_ : & T ,` is given by selfty
        st = o.get("selfty")
        if st:
            k = tl.index("self_")
            if tl[k - 1] == "&":
                # `& self` receiver
                tl = tl[:k - 1] + ["self_", ":", "&"] + X.T(st) + tl[k + 1:]
                body_open += 1 + len(X.T(st))
            elif tl[k - 1] == "mut" and tl[k - 2] == "&":
                tl = tl[:k - 2] + ["self_", ":", "&", "mut"] + X.T(st) + tl[k + 1:]
                body_open += 1 + len(X.T(st))
            else:
                tl = tl[:k + 1] + [":"] + X.T(st) + tl[k + 1:]
                body_open += 1 + len(X.T(st))
        body_open = X.sig_body_open(tl)
        applied.append(("lift", c))
    if "ret" in o:
        tl, c, body_open = X.rw_named_return(tl, body_open, o["ret"])
        applied.append(("named_return", c))
    sig, body = tl[:body_open], tl[body_open:]
    for rw in [r for r in o.get("rw", "").split(",") if r]:
        f = {"forcont": X.rw_for_continue, "narrow": X.rw_narrow_collect, "breakval": X.rw_break_value,
             "charsenum": X.rw_chars_enumerate, "revcollect": X.rw_rev_collect,
             "charrange": X.rw_range_contains, "strplumb": X.rw_str_plumbing, "io": X.rw_io, "fmt": X.rw_fmt,
             "charsrev": X.rw_chars_rev, "optlib": X.rw_optlib}[rw]
        body, c = f(body)
        applied.append((rw, c))
    if "closure" in o:
        callee, newname, args = o["closure"].split(":")
        body, c, _ = X.rw_closure_call(body, callee, newname, args.replace("~", " "))
        applied.append(("closure_call", c))
    if "ops" in o:
        body, c = X.rw_ref_ops(body, o["ops"])
        applied.append(("R1_ref_ops", c))
    log.append({"region": reg.name, "repo": "%s:%d-%d" % loc, "rewrites": applied})
    return sig + body, body_open, loc


def weave_region(repo, reg, mode, log, contract_only=False):
    """Return (text, info). mode: verify | stub."""
    items = split_region(reg.lines)
    # contract-side token stream
    creal = []      # texts
    cgap = []       # original text preceding each real token (whitespace/comments) for pretty output
    anns_before = {}  # index into creal -> [ann text]
    for kind, text in items:
        if kind == "ann":
            anns_before.setdefault(len(creal), []).append(text)
        else:
            toks = lex(text)
            prev = 0
            for t in toks:
                creal.append(t.text)
                cgap.append(None)
            # gaps are not preserved exactly; output is re-laid-out below
    new, body_open, loc = repo_fn_tokens(repo, reg, log)
    trusted = reg.opts.get("trusted") == "1"
    if mode == "stub" or trusted:
        # signature annotations = those attached before the body-open token of the *contract* stream
        # locate contract body open: first '{' at paren depth 0 after 'fn'
        cbo = _body_open(creal)
        if new[:body_open] != creal[:cbo]:
            raise AnchorLost("signature of %s changed: repo `%s` vs contract `%s`" % (
                reg.name, " ".join(new[:body_open]), " ".join(creal[:cbo])))
        out = ["#[verifier::external_body]\n"]
        for k in range(cbo):
            for a in anns_before.get(k, []):
                out.append("\n//@+\n" + a + "\n//@-\n")
            out.append(_tok_out(creal[k]))
        for a in anns_before.get(cbo, []):
            out.append("\n//@+\n" + a + "\n//@-\n")
        out.append("{ unimplemented!() }\n")
        return "".join(out), {"name": reg.name, "mode": "trusted" if (trusted and mode != "stub") else "stub",
                               "loc": loc, "changed": False, "nann": 0}
    if contract_only:
        # keep only the annotations of the signature (the contract); proof hints inside the body are dropped
        cbo = _body_open(creal)
        kept = {}
        for k, v in anns_before.items():
            if k <= cbo:
                kept[k] = v
            else:
                # termination measures and iterator labels / type hints are kept (Verus rejects a loop without
                # `decreases`); invariants and proof hints are dropped
                for a in v:
                    ls = a.split("\n")
                    idx = [i for i, l in enumerate(ls) if l.strip().startswith("decreases")]
                    if idx:
                        kept.setdefault(k, []).append("\n".join(ls[idx[0]:]))
                    elif a.strip().startswith((":", "it:", "jt:", "iter:")) or a.strip().startswith("#["):
                        kept.setdefault(k, []).append(a)
        anns_before = kept
    sm = difflib.SequenceMatcher(None, creal, new, autojunk=False)
    # A consistent renaming of a local / parameter (every occurrence of identifier `a` in the baseline became the fresh
    # identifier `b`) is carried over to the annotation text, so that a rename alone does not detach the proof hints.
    renames = _consistent_renames(creal, new, sm.get_opcodes())
    if renames:
        def _ren(text):
            for a, b in renames.items():
                text = re.sub(r"(?<![A-Za-z0-9_])%s(?![A-Za-z0-9_])" % re.escape(a), b, text)
            return text
        anns_before = {k: [_ren(a) for a in v] for k, v in anns_before.items()}
        log.append({"region": reg.name, "renamed_in_annotations": renames})
    out = []
    nann = 0
    changed = False

    # annotations are anchored AFTER the preceding real token (anns_before[k] follows token k-1): a loop
    # invariant stays attached to the end of its loop header, a contract to the end of the signature.
    # A statement-like chunk (proof block, ghost let, assert) whose anchor token disappeared is not dropped into
    # the middle of whatever replaced it: it is deferred to the next statement boundary of the new code.
    pending = []
    pending_labels = []
    pending_loop = []

    def is_clause(a):
        s0 = a.lstrip()
        return s0.startswith(("invariant", "requires", "ensures", "decreases", ":", "it:", "jt:", "iter:"))

    def emit_anns(k, anchored=True):
        nonlocal nann
        for a in anns_before.get(k, []):
            if not anchored and a.lstrip().startswith((":", "it:", "jt:", "iter:")) and "\n" not in a.strip():
                # an iterator label whose anchor token (`in`) is gone (the loop header moved): it is attached to the
                # next `in` of the new code; if there is none it is dropped (hints that mention it then fail to
                # resolve -> contract-only retry)
                nann += 1
                if a.lstrip().startswith(("it:", "jt:", "iter:")):
                    pending_labels.append(a)
                continue
            if not anchored and a.lstrip().startswith(("invariant", "decreases")):
                # loop clauses whose loop header moved: attached to the end of the next loop header of the new code
                pending_loop.append(a)
                nann += 1
                continue
            if anchored or is_clause(a):
                out.append("\n//@+\n" + a + "\n//@-\n")
            else:
                pending.append(a)
            nann += 1

    hdr = {"open": False, "depth": 0}

    def emit_tok(t):
        if t in ("for", "while"):
            hdr["open"], hdr["depth"] = True, 0
        elif hdr["open"]:
            if t in ("(", "["):
                hdr["depth"] += 1
            elif t in (")", "]"):
                hdr["depth"] -= 1
            elif t == "{" and hdr["depth"] == 0:
                hdr["open"] = False
                if pending_loop:
                    for a in pending_loop:
                        out.append("\n//@+\n" + a + "\n//@-\n")
                    del pending_loop[:]
            elif t == ";" and hdr["depth"] == 0:
                hdr["open"] = False
        out.append(_tok_out(t))
        if t == "in" and pending_labels:
            out.append("\n//@+\n" + pending_labels.pop(0) + "\n//@-\n")
        if t in (";", "{", "}") and pending:
            for a in pending:
                out.append("\n//@+\n" + a + "\n//@-\n")
            del pending[:]

    emit_anns(0)
    for tag, i1, i2, j1, j2 in sm.get_opcodes():
        if tag == "equal":
            for k in range(i1, i2):
                emit_tok(creal[k])
                emit_anns(k + 1)
        elif tag == "delete":
            changed = True
            for k in range(i1, i2):
                emit_anns(k + 1, anchored=(k == i2 - 1 and creal[k] in (";", "{", "}") and False))
        elif tag == "insert":
            changed = True
            for j in range(j1, j2):
                emit_tok(new[j])
        else:
            changed = True
            for j in range(j1, j2):
                emit_tok(new[j])
            for k in range(i1, i2):
                emit_anns(k + 1, anchored=False)
    for a in pending:
        out.append("\n//@+\n" + a + "\n//@-\n")
    text = _layout("".join(out))
    return text, {"name": reg.name, "mode": "verify", "loc": loc, "changed": changed, "nann": nann,
                  "real_tokens": new, "contract_only": contract_only}


_IDENT = re.compile(r"^[A-Za-z_][A-Za-z0-9_]*$")
_KEYWORDS = {"let", "mut", "fn", "if", "else", "match", "for", "in", "while", "loop", "return", "break", "continue", "as", "ref",
             "self", "Self", "pub", "impl", "where", "true", "false", "Some", "None", "Ok", "Err", "usize", "isize", "u8", "u32",
             "u64", "u128", "i32", "bool"}


def _consistent_renames(old, new, opcodes):
    cand = {}
    bad = set()
    for tag, i1, i2, j1, j2 in opcodes:
        if tag == "replace" and i2 - i1 == j2 - j1:
            for a, b in zip(old[i1:i2], new[j1:j2]):
                if a == b:
                    continue
                if _IDENT.match(a) and _IDENT.match(b) and a not in _KEYWORDS and b not in _KEYWORDS:
                    if cand.setdefault(a, b) != b:
                        bad.add(a)
                else:
                    return {}      # the replaced stretch is not a pure renaming
        elif tag == "equal":
            pass
    res = {}
    oldset = set(old)
    for a, b in cand.items():
        if a in bad or b in oldset:
            continue
        # every occurrence of a must have been replaced: a must not survive in the new text
        if a in set(new):
            continue
        res[a] = b
    return res


def _body_open(tl):
    pd = 0
    seen_fn = False
    for i, x in enumerate(tl):
        if x == "fn":
            seen_fn = True
        if x in ("(", "["):
            pd += 1
        elif x in (")", "]"):
            pd -= 1
        elif x == "{" and pd == 0 and seen_fn:
            return i
    raise AnchorLost("no body in contract region")


def _tok_out(t):
    if t in (";", "{", "}"):
        return " " + t + "\n"
    return " " + t


def _layout(s):
    # light cosmetic cleanup; semantics-free
    s = re.sub(r"\n[ \t]*\n+", "\n", s)
    return s + "\n"


def strip_annotations(text):
    """Inverse of weaving for the identity check: drop //@+ ... //@- blocks and external attrs."""
    out = []
    skip = False
    for line in text.split("\n"):
        s = line.strip()
        if s == "//@+":
            skip = True
            continue
        if s == "//@-":
            skip = False
            continue
        if not skip:
            out.append(line)
    return "\n".join(out)


def weave_struct(repo, reg, log):
    src, toks = X.file_tokens(repo, reg.rfile)
    a, b = X.find_struct(toks, reg.skind, reg.sname)
    repo_t = [t.text for t in toks[a:b + 1]]
    items = split_region(reg.lines)
    mine = []
    for kind, text in items:
        if kind == "real":
            mine += [t.text for t in lex(text)]
    if mine != repo_t:
        raise AnchorLost("%s %s changed shape: repo `%s`" % (reg.skind, reg.sname, " ".join(repo_t)))
    derives = X.derive_of(toks, a)
    log.append({"region": reg.name, "repo": "%s:%d" % (reg.rfile, X.line_of(src, toks[a].start)),
                "derives_replaced_by_explicit_impls": derives})
    return "\n".join(reg.lines) + "\n", {"name": reg.name, "mode": "struct", "derives": derives}


def stub_lemma(reg):
    """external_body version of a proof fn: keep everything up to the last top-level brace group."""
    text = "\n".join(reg.lines)
    toks = lex(text)
    # last top-level '{'
    depth = 0
    last_open = None
    for t in toks:
        if t.kind == "punct" and t.text in "([{":
            if depth == 0 and t.text == "{":
                last_open = t
            depth += 1
        elif t.kind == "punct" and t.text in ")]}":
            depth -= 1
    if last_open is None:
        raise AnchorLost("lemma %s has no body" % reg.name)
    return "#[verifier::external_body]\n" + text[:last_open.start] + "{ unimplemented!() }\n"


def build_unit(repo, contracts_dir, unit, out_path, contract_only=()):
    """unit: dict with 'parts': list of {file, mode, verify:[names], stub:[names]}.
    Writes the generated Verus file; returns info dict (regions with line ranges, rewrite log)."""
    log = []
    regions = []
    chunks = []
    line = 1

    def add(text, info=None):
        nonlocal line
        if not text.endswith("\n"):
            text += "\n"
        n = text.count("\n")
        if info is not None:
            info["gen_lines"] = (line, line + n - 1)
            regions.append(info)
        chunks.append(text)
        line += n

    for part in unit["parts"]:
        path = os.path.join(contracts_dir, part["file"])
        default = part.get("mode", "verify")
        if part["file"].endswith(".rs"):
            add(open(path, encoding="utf-8").read())
            continue
        only = part.get("only")  # if given: only these regions are emitted at all (plus all text)
        for kind, seg in parse_contract(path, tuple(part.get("define", []))):
            if kind == "text":
                add(seg)
                continue
            reg = seg
            mode = default
            if reg.name in part.get("verify", []):
                mode = "verify"
            if reg.name in part.get("stub", []):
                mode = "stub"
            if reg.name in part.get("omit", []):
                continue
            if only is not None and reg.kind == "real" and reg.name not in only:
                continue
            if reg.kind == "struct":
                text, info = weave_struct(repo, reg, log)
                add(text, info)
            elif reg.kind == "lemma":
                if mode == "stub":
                    add(stub_lemma(reg), {"name": reg.name, "mode": "lemma_stub"})
                else:
                    add("\n".join(reg.lines) + "\n", {"name": reg.name, "mode": "lemma"})
            else:
                text, info = weave_region(repo, reg, mode, log, contract_only=(reg.name in contract_only))
                info["contract"] = "%s:%d" % (os.path.basename(reg.file), reg.lineno)
                add("// region %s (%s) from %s:%d-%d\n" % ((reg.name, info["mode"]) + info["loc"]) + text, info)
    os.makedirs(os.path.dirname(out_path), exist_ok=True)
    with open(out_path, "w", encoding="utf-8") as f:
        f.write("".join(chunks))
    return {"regions": regions, "rewrites": log}


def identity_check(gen_path, info):
    """Independent pass: for every woven region, strip annotation blocks from the *generated* text and
    compare its token stream with the rewritten repo tokens recorded at extraction."""
    lines = open(gen_path, encoding="utf-8").read().split("\n")
    bad = []
    for r in info["regions"]:
        if r.get("mode") != "verify":
            continue
        a, b = r["gen_lines"]
        text = "\n".join(lines[a - 1:b])
        got = [t.text for t in lex(strip_annotations(text))]
        if got != r["real_tokens"]:
            bad.append(r["name"])
    return bad
