"""Small Rust tokenizer used by the extractor / weaver.

It only needs to be good enough to (a) find items and matching braces in the
hyeo-ung-lang sources and (b) produce a comment-free token stream that can be
compared and aligned.  Comments (line, nested block, doc) are skipped.
"""
import re

PUNCT3 = ["<<=", ">>=", "...", "..=", "==>", "=~=", "===", "&&&", "|||", "!=="]
PUNCT2 = ["::", "->", "=>", "..", "&&", "||", "==", "!=", "<=", ">=", "+=", "-=",
          "*=", "/=", "%=", "^=", "&=", "|=", "<<", ">>"]

IDENT_RE = re.compile(r"[A-Za-z_][A-Za-z0-9_]*")
NUM_RE = re.compile(r"(0x[0-9a-fA-F_]+|0b[01_]+|0o[0-7_]+|[0-9][0-9_]*)([A-Za-z_][A-Za-z0-9_]*)?")


class Tok:
    __slots__ = ("kind", "text", "start", "end")

    def __init__(self, kind, text, start, end):
        self.kind, self.text, self.start, self.end = kind, text, start, end

    def __repr__(self):
        return "Tok(%s,%r)" % (self.kind, self.text)


class LexError(Exception):
    pass


def lex(src, base=0):
    """Return list of Tok for src (comments/whitespace dropped). Positions are offsets in src + base."""
    toks = []
    i, n = 0, len(src)
    while i < n:
        c = src[i]
        if c.isspace():
            i += 1
            continue
        if src.startswith("//", i):
            j = src.find("\n", i)
            i = n if j < 0 else j
            continue
        if src.startswith("/*", i):
            depth, j = 1, i + 2
            while j < n and depth:
                if src.startswith("/*", j):
                    depth += 1
                    j += 2
                elif src.startswith("*/", j):
                    depth -= 1
                    j += 2
                else:
                    j += 1
            if depth:
                raise LexError("unterminated block comment")
            i = j
            continue
        # raw strings / byte strings
        m = re.match(r"b?r(#*)\"", src[i:i + 40])
        if m:
            hashes = m.group(1)
            close = '"' + hashes
            j = src.find(close, i + m.end())
            if j < 0:
                raise LexError("unterminated raw string")
            j += len(close)
            toks.append(Tok("str", src[i:j], base + i, base + j))
            i = j
            continue
        if c == '"' or (c == 'b' and src.startswith('b"', i)):
            j = i + (2 if c == 'b' else 1)
            while j < n and src[j] != '"':
                j += 2 if src[j] == "\\" else 1
            if j >= n:
                raise LexError("unterminated string")
            j += 1
            toks.append(Tok("str", src[i:j], base + i, base + j))
            i = j
            continue
        if c == "'" or (c == 'b' and src.startswith("b'", i)):
            k = i + (1 if c == 'b' else 0)
            # char literal or lifetime
            if src[k + 1:k + 2] == "\\":
                j = src.find("'", k + 3)
                if j < 0:
                    raise LexError("bad char literal")
                j += 1
                toks.append(Tok("char", src[i:j], base + i, base + j))
                i = j
                continue
            if src[k + 2:k + 3] == "'":
                j = k + 3
                toks.append(Tok("char", src[i:j], base + i, base + j))
                i = j
                continue
            m = IDENT_RE.match(src, k + 1)
            if m and c == "'":
                toks.append(Tok("lifetime", src[i:m.end()], base + i, base + m.end()))
                i = m.end()
                continue
            raise LexError("bad quote at %d" % i)
        m = IDENT_RE.match(src, i)
        if m:
            toks.append(Tok("ident", m.group(0), base + i, base + m.end()))
            i = m.end()
            continue
        m = NUM_RE.match(src, i)
        if m:
            j = m.end()
            # fractional part: only if '.' followed by digit (so that `0..n` and `x.0.cmp` stay intact)
            if src[j:j + 1] == "." and src[j + 1:j + 2].isdigit() and not m.group(2):
                m2 = re.compile(r"\.[0-9_]+([eE][+-]?[0-9]+)?([A-Za-z_][A-Za-z0-9_]*)?").match(src, j)
                j = m2.end()
            toks.append(Tok("num", src[i:j], base + i, base + j))
            i = j
            continue
        for p in PUNCT3:
            if src.startswith(p, i):
                toks.append(Tok("punct", p, base + i, base + i + 3))
                i += 3
                break
        else:
            for p in PUNCT2:
                if src.startswith(p, i):
                    toks.append(Tok("punct", p, base + i, base + i + 2))
                    i += 2
                    break
            else:
                toks.append(Tok("punct", c, base + i, base + i + 1))
                i += 1
    return toks


OPEN = {"(": ")", "[": "]", "{": "}"}
CLOSE = {")", "]", "}"}


def match_close(toks, i):
    """toks[i] is an opening bracket; return index of its matching close."""
    depth = 0
    for j in range(i, len(toks)):
        t = toks[j].text
        if toks[j].kind == "punct":
            if t in OPEN:
                depth += 1
            elif t in CLOSE:
                depth -= 1
                if depth == 0:
                    return j
    raise LexError("unbalanced bracket starting at token %d (%s)" % (i, toks[i].text))


def texts(toks):
    return [t.text for t in toks]
