"""Best-effort search for a concrete failing input on the real code.

It never decides a property: a VIOLATION is decided by a failed Verus obligation. This module only tries to turn
that obligation into an input that can be replayed: boundary-value inputs are run through the replay driver
(/verif/replay, linked against the current /repo) and compared with a Python big-integer / Fraction oracle.
"""
import itertools
import json
import os
import random
import subprocess
from fractions import Fraction
from math import gcd

HERE = os.path.dirname(os.path.abspath(__file__))
ROOT = os.path.dirname(HERE)
TARGET = os.path.join(ROOT, "build", "replay-target")
BIN = os.path.join(TARGET, "release", "vreplay")
NAN = "너무 커엇..."
B = 1 << 32


def build():
    crate = os.path.join(ROOT, "replay")
    env = dict(os.environ, CARGO_NET_OFFLINE="true")
    lock = os.path.join(os.environ.get("VERIF_REPO", "/repo"), "Cargo.lock")
    p = subprocess.run(["cargo", "build", "--release", "--offline", "--target-dir", TARGET], cwd=crate, env=env,
                       stdout=subprocess.PIPE, stderr=subprocess.STDOUT, text=True, timeout=900)
    return p.returncode == 0, p.stdout[-2000:]


def run_lines(lines, timeout=300):
    p = subprocess.run([BIN], input="\n".join(lines) + "\n", stdout=subprocess.PIPE, stderr=subprocess.PIPE, text=True,
                       timeout=timeout)
    return p.stdout.split("\n")[:len(lines)]


def enc_big(n):
    sign = "+" if n >= 0 else "-"
    m = abs(n)
    limbs = []
    while True:
        limbs.append(m % B)
        m //= B
        if m == 0:
            break
    return sign + ":" + ",".join(str(x) for x in limbs)


def enc_num(q):
    if q is None:
        return "NaN"
    return enc_big(q.numerator) + "/" + enc_big(q.denominator)


def show_num(q):
    if q is None:
        return NAN
    return str(q.numerator) if q.denominator == 1 else "%d/%d" % (q.numerator, q.denominator)


def tdiv(a, b):
    q = abs(a) // abs(b)
    return q if (a >= 0) == (b > 0) else -q


def ints(seed, big=True):
    limbs = [0, 1, 2, 0x7FFFFFFF, 0x80000000, 0xFFFFFFFE, 0xFFFFFFFF]
    vals = set()
    for a in limbs:
        vals.add(a)
    for a in limbs:
        for b in [1, 0x80000000, 0xFFFFFFFF]:
            vals.add(a + b * B)
    rnd = random.Random(seed)
    if big:
        for _ in range(6):
            k = rnd.choice([2, 3, 4])
            vals.add(sum(rnd.choice(limbs + [rnd.getrandbits(32)]) * B ** i for i in range(k)) | (1 << (32 * (k - 1))))
    out = sorted(vals)
    return out + [-v for v in out if v]


def fracs(seed):
    rnd = random.Random(seed)
    small = [0, 1, 2, 3, 4, 6, 10, 0xFFFFFFFF, B, B + 1, 3 * B]
    out = []
    for u in small + [-x for x in small if x]:
        for d in [1, 2, 3, 4, 6, 0xFFFFFFFF, B, 6 * B]:
            out.append(Fraction(u, d))
    for u in (3, -5, 1):
        for d in (B + 1, 7 * B * B + 1, 2 * B + 1):
            out.append(Fraction(u, d))
    for _ in range(8):
        out.append(Fraction(rnd.getrandbits(70) - (1 << 69), rnd.getrandbits(40) + 1))
    seen = []
    for f in out:
        if f not in seen:
            seen.append(f)
    return seen + [None]


def cmp_s(a, b):
    return "Less" if a < b else ("Equal" if a == b else "Greater")


DIG = "0123456789ABCDEFGHIJKLMNOPQRSTUVWXYZ"


def render(n, b):
    if n == 0:
        return "0"
    m, out = abs(n), ""
    while m:
        out = DIG[m % b] + out
        m //= b
    return ("-" if n < 0 else "") + out


def area_eval(tree, count, vals):
    """tree: nested tuple ('Q'|'E', l, r) | ('H', n) | ('N',). returns (type, pops)"""
    k = 0
    while True:
        if tree[0] == "N":
            return 0, k
        if tree[0] == "H":
            return tree[1], k
        v = vals[k] if k < len(vals) else None
        k += 1
        if tree[0] == "Q":
            left = v is not None and v < count
        else:
            left = v is not None and v == count
        tree = tree[1] if left else tree[2]


def tree_tokens(t):
    if t[0] == "N":
        return ["N"]
    if t[0] == "H":
        return ["H%d" % t[1]]
    return [t[0]] + tree_tokens(t[1]) + tree_tokens(t[2])


class EncErr(Exception):
    pass


class ExitPop(Exception):
    """a pop from stack 1 / 2 ends the process: such a program cannot be replayed step by step in-process"""
    pass


def machine_run(cmds, stacks, max_steps, stdin=""):
    """Reference interpreter (language definition): six commands, areas, labels, stdin refill of stack 0 and output
    on stacks 1/2 (no command may pop stack 1/2). Returns the replay driver's text."""
    st = {k: list(v) for k, v in stacks.items()}
    cur, loc, steps = 3, 0, 0
    points, latest = {}, None
    lines = stdin.split("\n")
    lines.reverse()
    outs = {1: bytearray(), 2: bytearray()}

    def pop(i):
        if i in (1, 2):
            raise ExitPop()
        s_ = st.setdefault(i, [])
        if i == 0 and not s_:
            line = lines.pop() if lines else ""
            for ch in reversed(line):
                s_.append(Fraction(ord(ch)))
        return s_.pop() if s_ else None

    def push(i, v):
        if i in (1, 2):
            if v is not None and v >= 0:
                code = (v.numerator // v.denominator) % (1 << 32)
                if code > 0x10FFFF or 0xD800 <= code <= 0xDFFF:
                    raise EncErr()
                outs[i] += chr(code).encode("utf-8")
            else:
                outs[i] += show_num(None if v is None else -v).encode("utf-8")
            return
        s_ = st.setdefault(i, [])
        if s_ or v is not None:
            s_.append(v)

    def add(a, b):
        return None if a is None or b is None else a + b

    def mul(a, b):
        return None if a is None or b is None else a * b

    failed = False
    try:
        return _machine_loop(cmds, st, lines, outs, pop, push, add, mul, max_steps)
    except ExitPop:
        return None


def _machine_loop(cmds, st, lines, outs, pop, push, add, mul, max_steps):
    cur, loc, steps = 3, 0, 0
    points, latest = {}, None
    failed = False
    while loc < len(cmds) and steps < max_steps:
        ty, h, d, tree = cmds[loc]
        c = cur
        try:
            if ty == 0:
                push(c, Fraction(h * d))
            elif ty == 1 or ty == 2:
                n = Fraction(0) if ty == 1 else Fraction(1)
                for _ in range(h):
                    n = add(n, pop(c)) if ty == 1 else mul(n, pop(c))
                push(d, n)
            elif ty == 3 or ty == 4:
                n = Fraction(0) if ty == 3 else Fraction(1)
                vs = [pop(c) for _ in range(h)]
                vs.reverse()
                for x in vs:
                    if ty == 3:
                        x = None if x is None else -x
                        n = add(n, x)
                    else:
                        x = None if (x is None or x == 0) else 1 / x
                        n = mul(n, x)
                    push(c, x)
                push(d, n)
            else:
                n = pop(c)
                for _ in range(h):
                    push(d, n)
                push(c, n)
                cur = d
        except EncErr:
            failed = True
            break
        count = h * d
        t = tree
        while True:
            if t[0] == "N":
                at = 0
                break
            if t[0] == "H":
                at = t[1]
                break
            v = pop(cur)
            left = (v is not None and v < count) if t[0] == "Q" else (v is not None and v == count)
            t = t[1] if left else t[2]
        nxt = loc + 1
        if at != 0:
            if at != 13:
                pid = (count << 4) + at
                if pid in points:
                    if loc != points[pid]:
                        latest = loc
                        nxt = points[pid]
                else:
                    points[pid] = loc
            elif latest is not None:
                nxt = latest
        loc = nxt
        steps += 1
    out = "ERROR at loc=%d" % loc if failed else "loc=%d cur=%d" % (loc, cur)
    for i in sorted(st):
        if st[i] and not failed:
            if any(v is not None and (abs(v.numerator) >> 512 or v.denominator >> 512) for v in st[i]):
                return None     # astronomically large values: skipped (slow to replay, nothing new)
            out += " |%d=" % i + " ".join(show_num(v) for v in st[i])
    out += " out=%s err=%s" % (outs[1].hex(), outs[2].hex())
    return out


def cases_for(op, seed):
    """yield (line, expected, pretty input)"""
    if op == "exit.pop":
        yield ("exit.pop\t1", "status=0 out=A err=B", {"op": "write 'A'/'B' to stacks 1/2, then pop stack 1 (child process)"})
        yield ("exit.pop\t2", "status=1 out=A err=B", {"op": "write 'A'/'B' to stacks 1/2, then pop stack 2 (child process)"})
        return
    if op == "stdin.cat":
        texts = ["", "a", "a\r\nb", "\r\n\r", "ab\ncd", "ab\ncd\n", "\n\nx", "é가\U0001F496\n\U0010FFFF", "\x00\x7f\u0080\u07ff\u0800\ud7ff\ue000\uffff\U00010000", "x" * 300 + "\ny"]
        for t in texts:
            k = len(t) + 3
            # reading is line by line: after each line is exhausted the next is read; an EMPTY buffer after the last
            # line yields NaN (end of input)
            exp = [str(ord(ch)) for ch in t] + ["NaN"] * 3
            yield ("stdin.cat\t%s\t%d" % (t.encode("utf-8").hex(), k), " ".join(exp), {"op": "pop stack 0 repeatedly (real stdin)", "stdin": t, "pops": k})
        return
    if op == "opt.cmp":
        # straight-line programs (no hearts, so they terminate) whose results are printed through stack 1;
        # oracle: the unoptimised run of the same program (property C02)
        rnd = random.Random(seed + 11)
        N = ("N",)
        H2 = ("H", 2)
        # counting loops (no output inside the loop) that run below / above the optimiser's 100-jump budget
        for rounds in (5, 50, 99, 100, 101, 120, 150):
            cmds = [(0, 1, rounds, N), (1, 1, 3, H2), (3, 1, 4, N), (0, 1, 1, N), (1, 2, 3, N), (3, 1, 3, ("Q", N, H2)), (1, 1, 1, N)]
            prog = ";".join("%d,%d,%d,%s" % (ty, h, d, " ".join(tree_tokens(t))) for ty, h, d, t in cmds)
            yield ("opt.cmp\t%s" % prog, ("selfeq",), {"op": "run unoptimised vs optimised level 2", "commands(type,syllables,dots,area)": prog})
        # the same loops printing a character in every round (output produced during speculative execution)
        for rounds in (5, 99, 120, 150):
            cmds = [(0, 1, rounds, N), (1, 1, 3, H2), (0, 1, 65, N), (1, 1, 1, N), (3, 1, 4, N), (0, 1, 1, N), (1, 2, 3, N), (3, 1, 3, ("Q", N, H2)), (1, 1, 1, N)]
            prog = ";".join("%d,%d,%d,%s" % (ty, h, d, " ".join(tree_tokens(t))) for ty, h, d, t in cmds)
            yield ("opt.cmp\t%s" % prog, ("selfeq",), {"op": "run unoptimised vs optimised level 2", "commands(type,syllables,dots,area)": prog,
                                                         "note": "loop of %d rounds printing 'A' in each round" % rounds})
        # level-1 renumbering: a stack selected by 흑 that is read only after a backward jump, next to a write-only stack
        prog = "0,1,66,N;0,1,1,N;0,1,65,N;0,1,67,N;1,1,7,N;1,1,1,H2;5,1,5,N;0,1,1,Q N E H2 N"
        yield ("opt.cmp\t%s" % prog, ("selfeq",), {"op": "run unoptimised vs optimised level 2", "commands(type,syllables,dots,area)": prog,
                                                   "note": "stack 5 is read only after a jump back; stack 7 is write-only"})
        # pre-computed output beyond ASCII (level 2 hands it on through stacks 1 / 2)
        for (h, d, tgt) in ((2, 100, 1), (2, 64075, 1), (1, 0x10FFFF, 2), (3, 1000, 2)):
            prog = "0,%d,%d,N;1,1,%d,N;0,1,65,N;1,1,%d,N" % (h, d, tgt, tgt)
            yield ("opt.cmp\t%s" % prog, ("selfeq",), {"op": "run unoptimised vs optimised level 2", "commands(type,syllables,dots,area)": prog,
                                                       "note": "prints U+%04X then 'A' on stack %d" % (h * d, tgt)})
        # an output stack selected by 흑, then plain pushes (형) onto it: the order of the output must be kept
        for (tgt, a, b) in ((1, 48, 56), (2, 65, 2), (1, 2, 100), (2, 200, 33)):
            prog = "0,1,%d,N;5,1,%d,N;0,1,%d,N;0,1,%d,N" % (a, tgt, b, a)
            yield ("opt.cmp\t%s" % prog, ("selfeq",), {"op": "run unoptimised vs optimised level 2", "commands(type,syllables,dots,area)": prog,
                                                       "note": "흑 selects output stack %d, then 형 pushes onto it" % tgt})
        # many stacks, some only written to, some selected and read; two of them printed at the end
        for _ in range(250):
            n = rnd.randint(3, 9)
            cmds = []
            for _ in range(n):
                ty = rnd.choice([0, 0, 1, 1, 2, 3, 4, 5, 5])
                h = rnd.randint(1, 2)
                d = rnd.randint(1, 5) if ty == 0 else rnd.randint(3, 9)
                cmds.append((ty, h, d, N))
            for q in rnd.sample(range(3, 10), 2):
                cmds.append((5, 1, q, N))
                cmds.append((1, 1, 1, N))
                cmds.append((1, 2, 1, N))
            prog = ";".join("%d,%d,%d,%s" % (ty, h, d, " ".join(tree_tokens(t))) for ty, h, d, t in cmds)
            yield ("opt.cmp\t%s" % prog, ("selfeq",), {"op": "run unoptimised vs optimised level 2", "commands(type,syllables,dots,area)": prog})
        for _ in range(300):
            n = rnd.randint(2, 7)
            cmds = []
            for _ in range(n):
                ty = rnd.randint(0, 5)
                h = rnd.randint(1, 3)
                d = rnd.randint(1, 5) if ty == 0 else rnd.choice([3, 3, 4, 5])
                cmds.append((ty, h, d, N))
            # print what is on the selected stack and on stack 3/4
            cmds.append((1, 1, 1, N))
            cmds.append((5, 1, 4, N))
            cmds.append((1, 2, 1, N))
            prog = ";".join("%d,%d,%d,%s" % (ty, h, d, " ".join(tree_tokens(t))) for ty, h, d, t in cmds)
            yield ("opt.cmp\t%s" % prog, ("selfeq",), {"op": "run unoptimised vs optimised level 2", "commands(type,syllables,dots,area)": prog})
        return
    if op == "exec.steps":
        rnd = random.Random(seed + 7)
        H2, H3, H13, N = ("H", 2), ("H", 3), ("H", 13), ("N",)
        trees = [N, N, H2, H3, H2, H13, H13, ("Q", H2, N), ("E", H3, H2), ("Q", N, ("E", H2, N)), ("E", ("Q", H13, H3), N), ("Q", H13, H2)]
        vals = [Fraction(0), Fraction(1), Fraction(2), Fraction(-3), Fraction(1, 2), Fraction(-5, 3), Fraction(6), Fraction(65), Fraction(0x1F496),
                Fraction(0xD800), Fraction(0x110000), None]
        # output encoding at the boundaries of the scalar-value range and of the UTF-8 length classes (property C14):
        # push the code point, send it to stdout / stderr
        for code in (0, 0x7F, 0x80, 0x7FF, 0x800, 0xD7FF, 0xD800, 0xDFFF, 0xE000, 0xFFFD, 0xFFFF, 0x10000, 0x10FFFF, 0x110000):
            for tgt in (1, 2):
                cmds = [(0, 1, code, N), (1, 1, tgt, N)]
                exp = machine_run(cmds, {}, 4, "")
                prog = ";".join("%d,%d,%d,%s" % (ty, h, d, " ".join(tree_tokens(t))) for ty, h, d, t in cmds)
                yield ("exec.steps\t%s\t%s\t%d\t%s" % (prog, "", 4, ""), exp,
                       {"op": "execute_one x<=4", "commands(type,syllables,dots,area)": prog, "stdin": "",
                        "note": "prints U+%04X on stack %d" % (code, tgt)})
        for it in range(5500):
            use_stdin = 1100 <= it < 1500
            loopy = it >= 1500
            n = rnd.randint(4, 11) if loopy else rnd.randint(1, 6)
            cmds = []
            for _ in range(n):
                ty = rnd.randint(0, 5)
                h = rnd.randint(1, 3)
                if ty == 0:
                    d = rnd.randint(0, 4)
                elif ty == 5:
                    d = rnd.choice([0, 0, 3, 4]) if use_stdin else (rnd.choice([1, 2, 3, 4, 0]) if it % 5 == 0 else rnd.randint(3, 5))
                else:
                    d = rnd.choice([0, 1, 2, 3, 4]) if use_stdin else rnd.choice([1, 2, 3, 3, 4, 5])
                tr = rnd.choice(trees)
                if loopy:
                    # labels collide when syllables*dots and the heart agree: keep the count at 3 or 4 and favour
                    # hearts, conditional hearts and the return heart
                    if ty == 0:
                        h, d = rnd.choice([(1, 3), (3, 1), (1, 4), (2, 2), (4, 1)])
                    else:
                        h, d = rnd.choice([(1, 3), (1, 4)])
                    tr = rnd.choice([N, H2, H2, H3, H13, H13, ("Q", H2, N), ("Q", N, H2), ("E", H13, N), ("Q", H13, H2), ("E", N, H2), ("Q", H3, H2), ("E", H2, H3)])
                cmds.append((ty, h, d, tr))
            idxs = (0, 3, 4) if use_stdin else (3, 4, 5)
            stacks = {i: [rnd.choice(vals[:-1])] + [rnd.choice(vals) for _ in range(rnd.randint(0, 3))] for i in idxs if rnd.random() < 0.7}
            stdin = rnd.choice(["", "A", "AB\\nC", "x\\n\\nyz", "A\\r\\nBC"]) if use_stdin else ""
            exp = machine_run(cmds, stacks, 40 if loopy else 12, stdin.replace("\\n", "\n").replace("\\r", "\r"))
            if exp is None:
                continue
            prog = ";".join("%d,%d,%d,%s" % (ty, h, d, " ".join(tree_tokens(t))) for ty, h, d, t in cmds)
            init = "|".join("%d=%s" % (i, " ".join(enc_num(v) for v in vs_)) for i, vs_ in stacks.items())
            yield ("exec.steps\t%s\t%s\t%d\t%s" % (prog, init, 40 if loopy else 12, stdin), exp,
                   {"op": "execute_one x<=12", "commands(type,syllables,dots,area)": prog, "stdin": stdin,
                    "initial stacks": {str(i): [show_num(v) for v in vs_] for i, vs_ in stacks.items()}})
        return
    if op == "big.roundtrip" or op == "big.to_base":
        vals = [0, 1, -1, 9, 10, 35, 36, 71, -35, 1295, 2 ** 32 - 1, 2 ** 32, -(2 ** 32), 2 ** 64 + 35, -(2 ** 70) - 11,
                36 ** 9 - 1, 35 * 36 ** 5]
        for b in range(2, 37):
            for n in vals:
                e = render(n, b)
                if op == "big.roundtrip":
                    yield ("big.roundtrip\t%s\t%d" % (enc_big(n), b), e + " true", {"op": "to_string_base then from_string_base", "n": n, "base": b})
                else:
                    yield ("big.to_base\t%s\t%d" % (enc_big(n), b), e, {"op": "to_string_base", "n": n, "base": b})
        return
    if op == "big.from_string":
        for n in [0, 7, -7, 10 ** 18, 1111111111111111110, 2 ** 63 - 1, 2 ** 63, 2 ** 63 + 1, 9999999999999999999, -(2 ** 63), -(2 ** 63) - 1,
                  10 ** 19, 2 ** 64, 2 ** 70 + 3, -(10 ** 25)]:
            yield ("big.from_string\t%d" % n, str(n), {"op": "BigNum::from_string", "text": str(n)})
        return
    if op == "big.from_base":
        vals = [0, 1, 9, 10, 35, 36, 71, -35, 1295, 2 ** 32, -(2 ** 70) - 11, 36 ** 9 - 1]
        for b in range(2, 37):
            for n in vals:
                yield ("big.from_base\t%s\t%d" % (render(n, b), b), str(n), {"op": "from_string_base", "text": render(n, b), "base": b})
        return
    if op == "area.calc":
        H2, H3, H5, N = ("H", 2), ("H", 3), ("H", 5), ("N",)
        trees = [N, H2, ("Q", H2, H3), ("E", H2, H3), ("Q", ("E", H2, H3), H5), ("E", H2, ("Q", H3, N)),
                 ("Q", ("Q", H2, H3), ("E", H5, ("Q", N, H2)))]
        vals = [Fraction(0), Fraction(1), Fraction(2), Fraction(3), Fraction(5, 2), Fraction(-1), Fraction(1 << 32), Fraction((1 << 32) + 5),
                Fraction(7, 3), None]
        rnd = random.Random(seed)
        for t in trees:
            for count in [0, 1, 2, 3, 5]:
                combos = [[a, b, c] for a in vals for b in vals[:4] + [None] for c in [Fraction(2), None]]
                rnd.shuffle(combos)
                for vs in combos[:40]:
                    ty, k = area_eval(t, count, vs)
                    line = "area.calc\t%s\t%d\t%s" % (" ".join(tree_tokens(t)), count, " ".join(enc_num(v) for v in vs))
                    yield (line, "%d %d" % (ty, k), {"op": "area::calc", "tree": " ".join(tree_tokens(t)), "count": count,
                                                     "popped": [show_num(v) for v in vs]})
        return
    if op == "big.new":
        for n in [0, 1, -1, 5, -5, 2 ** 31, -2 ** 31, 2 ** 32 - 1, 2 ** 32, -(2 ** 32), 2 ** 32 + 7, 2 ** 62, 2 ** 63 - 1,
                  -(2 ** 63) + 1, -(2 ** 63)]:
            yield ("big.new\t%d" % n, str(n), {"op": "BigNum::new", "n": n})
        return
    if op.startswith("big."):
        name = op[4:]
        vals = ints(seed)
        if name in ("neg", "show"):
            for a in vals:
                yield ("%s\t%s" % (op, enc_big(a)), str(-a if name == "neg" else a), {"op": op, "a": a})
            return
        pairs = list(itertools.product(vals, vals))
        if name in ("div", "rem", "gcd", "div_assign", "rem_assign"):
            rnd = random.Random(seed + 1)
            rnd.shuffle(pairs)
            pairs = pairs[:1500]
        for a, b in pairs:
            if name in ("div", "rem", "div_assign", "rem_assign") and b == 0:
                continue
            base = name.replace("_assign", "")
            if base == "add":
                e = str(a + b)
            elif base == "sub":
                e = str(a - b)
            elif base == "mul":
                e = str(a * b)
            elif base == "div":
                e = str(tdiv(a, b))
            elif base == "rem":
                e = str(a - tdiv(a, b) * b)
            elif base == "gcd":
                e = ("abs", gcd(a, b))
            elif base == "eq":
                e = "true" if a == b else "false"
            elif base == "cmp":
                e = cmp_s(a, b)
            else:
                continue
            yield ("%s\t%s\t%s" % (op, enc_big(a), enc_big(b)), e, {"op": op, "a": a, "b": b})
        return
    if op == "num.new":
        for u in [0, 1, -1, 2, -10, 10, 6, -6, 2 ** 31, -(2 ** 31), 2 ** 32 + 2, 2 ** 40]:
            for d in [0, 1, 2, 4, 3, 6, 2 ** 31, 2 ** 32, 2 ** 33]:
                if u == 0 and d == 0:
                    continue
                e = NAN if d == 0 else show_num(Fraction(u, d))
                yield ("num.new\t%d\t%d" % (u, d), e, {"op": "Num::new", "up": u, "down": d})
        return
    fs = fracs(seed)
    name = op[4:]
    if name in ("show", "neg", "minus", "flip", "floor", "is_pos", "is_nan", "roundtrip"):
        for a in fs:
            if name == "show":
                e = show_num(a)
            elif name in ("neg", "minus"):
                e = show_num(None if a is None else -a)
            elif name == "flip":
                e = show_num(None if (a is None or a == 0) else 1 / a)
            elif name == "floor":
                if a is None or a < 0:
                    continue
                e = str(a.numerator // a.denominator)
            elif name == "is_pos":
                e = "true" if (a is not None and a >= 0) else "false"
            elif name == "is_nan":
                e = "true" if a is None else "false"
            else:
                e = show_num(a) + " true"
            yield ("%s\t%s" % (op, enc_num(a)), e, {"op": op, "a": show_num(a)})
        return
    for a, b in itertools.product(fs, fs):
        if name in ("add", "add_assign"):
            e = show_num(None if (a is None or b is None) else a + b)
        elif name in ("mul", "mul_assign"):
            e = show_num(None if (a is None or b is None) else a * b)
        elif name == "eq":
            e = "true" if (a == b) else "false"
            if a is None or b is None:
                continue
        elif name == "cmp":
            e = "None" if (a is None or b is None) else cmp_s(a, b)
        else:
            continue
        yield ("%s\t%s\t%s" % (op, enc_num(a), enc_num(b)), e, {"op": op, "a": show_num(a), "b": show_num(b)})


OPS = {
    "BigNum::new": ["big.new"],
    "BigNum::from_vec": ["big.show"], "BigNum::shrink_to_fit": ["big.show", "big.add", "big.sub"],
    "BigNum::zero": ["big.show"], "BigNum::one": ["big.show"], "BigNum::is_zero": ["big.neg", "big.eq"],
    "BigNum::is_pos": ["big.cmp"], "BigNum::to_int": ["big.show"],
    "BigNum::add_core": ["big.add", "big.sub"], "BigNum::sub_core": ["big.add", "big.sub"],
    "BigNum::less_core": ["big.cmp", "big.sub", "big.div"],
    "BigNum::mult_core": ["big.mul"], "BigNum::div_core": ["big.div"],
    "BigNum::minus": ["big.neg", "big.add", "big.mul"], "BigNum::neg": ["big.neg"],
    "BigNum::add": ["big.add"], "BigNum::sub": ["big.sub"], "BigNum::mul": ["big.mul"], "BigNum::div": ["big.div"],
    "BigNum::rem": ["big.rem"], "BigNum::gcd": ["big.gcd"],
    "BigNum::set_copy": ["big.add_assign"], "BigNum::set_move": ["big.add_assign"],
    "op_add_BigNum": ["big.add"], "op_sub_BigNum": ["big.sub"], "op_mul_BigNum": ["big.mul"],
    "op_div_BigNum": ["big.div"], "op_rem_BigNum": ["big.rem"], "op_neg_BigNum": ["big.neg"],
    "op_add_assign_BigNum": ["big.add_assign"], "op_sub_assign_BigNum": ["big.sub_assign"],
    "op_mul_assign_BigNum": ["big.mul_assign"], "op_div_assign_BigNum": ["big.div_assign"],
    "op_rem_assign_BigNum": ["big.rem_assign"],
    "PartialEq_for_BigNum::eq": ["big.eq"], "bignum_partial_cmp": ["big.cmp"],
    "Num::new": ["num.new"], "Num::from_num": ["num.new"], "Num::from_big_num": ["num.show"],
    "Num::optimize": ["num.new", "num.show", "num.add", "num.mul"],
    "Num::zero": ["num.show"], "Num::one": ["num.show"], "Num::nan": ["num.show", "num.is_nan"],
    "Num::floor": ["num.floor"], "Num::is_pos": ["num.is_pos"], "Num::is_nan": ["num.is_nan"],
    "Num::minus": ["num.minus"], "Num::flip": ["num.flip"], "Num::add": ["num.add"], "Num::mul": ["num.mul"],
    "Num::neg": ["num.neg"], "Num::set_copy": ["num.add"], "Num::set_move": ["num.add"],
    "op_add_Num": ["num.add"], "op_mul_Num": ["num.mul"], "op_neg_Num": ["num.neg"],
    "op_add_assign_Num": ["num.add_assign", "num.add"], "op_mul_assign_Num": ["num.mul_assign", "num.mul"],
    "num_partial_cmp": ["num.cmp"], "fmt_display_Num": ["num.show", "num.roundtrip"], "fmt_display_BigNum": ["big.show"],
    "PartialOrd_for_Num::partial_cmp": ["num.cmp"], "PartialEq_for_Num::eq": ["num.eq"],
    "calc": ["area.calc"], "Area::new": ["area.calc"],
    "opt_execute": ["opt.cmp"], "calc_on_state_opt": ["opt.cmp"], "optimize": ["opt.cmp"],
    "execute_one": ["exec.steps"], "calc_on_state": ["exec.steps", "area.calc"], "push_stack_wrap": ["exec.steps"],
    "pop_stack_wrap": ["exec.steps", "stdin.cat", "exit.pop"], "ReadLine_for_std::io::Stdin::read_line_": ["stdin.cat"], "io_read_line_from": ["stdin.cat"], "State::push_stack": ["exec.steps"], "State::pop_stack": ["exec.steps"],
    "trait_State::push_stack": ["exec.steps"], "trait_State::pop_stack": ["exec.steps"], "ext_num_to_unicode": ["exec.steps"], "num_to_unicode": ["exec.steps"],
    "BigNum::to_string_base": ["big.to_base", "big.roundtrip"], "BigNum::from_string_base": ["big.from_base", "big.roundtrip"],
    "BigNum::from_string": ["big.from_string", "big.from_base"], "Num::from_string": ["num.roundtrip"],
}

PROP_OPS = {
    "C05": ["big.new", "big.add", "big.sub", "big.mul", "big.div", "big.rem", "big.neg", "big.eq", "big.cmp", "big.gcd",
            "big.add_assign", "big.sub_assign", "big.mul_assign", "big.div_assign", "big.rem_assign"],
    "C06": ["num.new", "num.show", "num.add", "num.mul", "num.add_assign", "num.mul_assign", "num.neg", "num.minus", "num.flip", "num.floor", "num.is_pos",
            "num.is_nan", "num.eq"],
    "C07": ["num.cmp", "area.calc", "big.eq", "big.cmp"],
    "C09": ["big.roundtrip", "big.to_base", "big.from_base", "big.from_string", "num.roundtrip"],
    "C01": ["exec.steps", "exit.pop", "area.calc", "num.cmp"],
    "C02": ["opt.cmp"], "C10": [], "C14": ["stdin.cat", "exec.steps"],
}


def matches(got, exp):
    if isinstance(exp, tuple) and exp[0] == "selfeq":
        m = got.split(" O2:")
        return len(m) == 2 and m[0].startswith("O0:") and m[0][3:] == m[1]
    if isinstance(exp, tuple) and exp[0] == "abs":
        return got.lstrip("-") == str(exp[1])
    return got == exp


def known_replay_inputs(prop):
    """(replay line, output) pairs that known_findings.json lists for known (unrepaired) findings of this property"""
    try:
        k = json.load(open(os.path.join(os.path.dirname(HERE), "known_findings.json")))
    except Exception:
        return set()
    res = set()
    for f in k.get("findings", []):
        # a recorded defect is known whichever property's check runs into it
        if f.get("status") == "known":
            for ri in f.get("replay_inputs", []):
                res.add((ri["replay_line"], ri["got"]))
    return res


def search_ops(ops, seed, prop=None):
    ok, log = build()
    if not ok:
        return {"input": None, "note": "replay driver did not build: " + log[-400:]}
    tried = 0
    known = known_replay_inputs(prop)
    known_seen = 0
    for op in ops:
        cases = list(cases_for(op, seed))
        if not cases:
            continue
        outs = run_lines([c[0] for c in cases])
        for (line, exp, pretty), got in zip(cases, outs):
            tried += 1
            if not matches(got, exp):
                if (line, got) in known:
                    # exactly the recorded failing input and output of a known finding: not a new violation
                    known_seen += 1
                    continue
                return {"input": pretty, "replay_line": line,
                        "expected": exp if not isinstance(exp, tuple) else ("|x| = %d" % exp[1] if exp[0] == "abs" else "same output at level 0 and level 2"),
                        "got": got, "note": "found by boundary-value replay against the Python oracle (%d inputs tried)" % tried}
    return {"input": None, "note": "boundary-value replay found no failing input (%d inputs, ops %s)" % (tried, ",".join(ops))}


def search(prop, region, seed, tier):
    ops = OPS.get(region)
    if not ops:
        return {"input": None, "note": "no replay operation is mapped to %s" % region}
    return search_ops(ops, seed, prop)


def search_property(prop, seed, tier):
    ops = PROP_OPS.get(prop)
    if not ops:
        return None
    return search_ops(ops, seed, prop)


def replay_doc(doc):
    """Re-run the stored failing input; return (still_fails, text)."""
    fi = doc.get("failing_input")
    if not fi or "replay_line" not in fi:
        return None, "replay file carries no concrete input (%s)" % (doc.get("search_note") or "no-failing-input-found")
    ok, log = build()
    if not ok:
        return None, "replay driver did not build"
    got = run_lines([fi["replay_line"]])[0]
    exp = fi["expected"]
    if str(exp).startswith("same output"):
        still = not matches(got, ("selfeq",))
    else:
        still = (got != exp) if not str(exp).startswith("|x|") else (got.lstrip("-") != str(exp).split("= ")[1])
    return still, "input %s: expected %s, real code returns %s" % (json.dumps(fi["input"], ensure_ascii=False), exp, got)
