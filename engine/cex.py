"""Best-effort search for a concrete failing input on the real code (never decides a property)."""


def search(prop, region, seed, tier):
    return {"input": None, "note": "no concrete search implemented for %s" % region}


def search_property(prop, seed, tier):
    return None
