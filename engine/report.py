"""Evidence writing, known-finding handling and VIOLATION reporting."""
import json
import os
import re
import sys
import time

HERE = os.path.dirname(os.path.abspath(__file__))
ROOT = os.path.dirname(HERE)

LEVELS = json.load(open(os.path.join(ROOT, "contracts", "levels.json")))


def msg_kind(msg):
    for k in ("postcondition", "precondition", "invariant", "overflow", "division by zero", "assertion", "index out of bounds",
              "shift", "decreases", "termination"):
        if k in msg:
            return k
    return "other"


def obligation_id(v):
    return "%s/%s" % (v["region"], msg_kind(v["msg"]))


def _prop_ops(prop, region):
    import cex
    return [op for op in cex.OPS.get(region, []) if op in cex.PROP_OPS.get(prop, [])]


def _region_ops(region):
    import cex
    return cex.OPS.get(region, [])


# Precondition clauses that carry a property by themselves: a call in code taken from /repo that fails one of them is
# reported without further confirmation even when the calling function differs from its contract baseline (the guard
# before a speculative pop, the flush-before-exit and exit-status rule).  Every other failed obligation in a changed
# function -- including auxiliary preconditions such as `get_req(idx)` -- needs a concrete failing input.
CARRYING_CLAUSES = ("speculative_mode()", "delivered(", "code == 0")


def _carrying(v):
    if not v.get("site_in_code"):
        return False
    d = v.get("detail") or ""
    # the clause Verus marks as the failed precondition
    m = re.search(r"\n\s*\d+\s*\|([^\n]*)\n[^\n]*-+ failed precondition", d)
    clause = m.group(1) if m else d
    return any(c in clause for c in CARRYING_CLAUSES)


def match_known(prop, v, known):
    for f in known.get("findings", []):
        if f.get("status") != "known" or f.get("property") != prop:
            continue
        if f.get("function") == v["region"] and (f.get("obligation") in (None, "*", msg_kind(v["msg"]))):
            # a finding is identified by the function, the kind of obligation and the text of the failed clause, so
            # that any other failed clause of the same function is still reported
            cc = f.get("clause_contains")
            if cc and cc.replace(" ", "") not in (v.get("detail") or "").replace(" ", ""):
                continue
            return f
    return None


def finish(prop, tier, seed, results, wall, known, no_evidence=False):
    violations = []
    known_hits = []
    undecided = []
    for name, r in results.items():
        for v in r.get("violations", []):
            v["unit"] = name
            k = match_known(prop, v, known)
            if k:
                known_hits.append((k, v))
            elif v.get("changed_vs_contract") and not v.get("contract_only") and _region_ops(v["region"]) \
                    and not _carrying(v) and msg_kind(v["msg"]) not in ("decreases", "termination"):
                # The function differs from the text its proof hints were written for. Where the replay driver can exercise
                # this function for this property, a failed proof alone is not reported: it must be confirmed by a concrete
                # failing input on the real code; otherwise the run is undecided (exit 2). (This includes failed
                # preconditions at call sites: with loops verified in isolation a harmless new local can break the loop's
                # context bundle.) Functions / properties without a replay operation and unchanged functions are reported
                # as before.
                import cex
                try:
                    found = cex.search(prop, v["region"], seed, tier)
                except Exception as e:
                    found = None
                if found and found.get("input") is not None:
                    violations.append(v)
                else:
                    v["why"] = "changed function, hint-dependent obligation failed, and %s" % ((found or {}).get("note") or "no failing input was found")
                    undecided.append(v)
            elif v.get("contract_only"):
                # the proof hints of this (changed) function had to be dropped: a failed proof is then not a
                # decision. It becomes a violation only if a concrete failing input is confirmed on the real code.
                import cex
                try:
                    found = cex.search(prop, v["region"], seed, tier)
                except Exception as e:
                    found = None
                if found and found.get("input") is not None:
                    violations.append(v)
                else:
                    v["why"] = "function changed beyond the reach of its proof hints; contract-only proof failed and no failing input was found"
                    undecided.append(v)
            else:
                violations.append(v)
        for u in r.get("undecided", []):
            u["unit"] = name
            undecided.append(u)

    # --- thorough tier: bounded Kani harnesses (a failed harness is a violation with CBMC's failed checks) ---
    extra = {}
    if tier == "thorough":
        try:
            import kani_tier
            extra = kani_tier.run(prop, seed)
            for kr in extra.get("kani_bounded", {}).get("results", []):
                if kr["status"] == "FAILED":
                    violations.append({"region": "kani:" + kr["harness"], "msg": "assertion failed in bounded Kani harness (%s)" % kr["bound"],
                                       "detail": "; ".join(kr["failed_checks"]), "repo_loc": "public API", "unit": "kani"})
        except Exception as e:
            extra = {"kani_bounded": {"error": "%s: %s" % (type(e).__name__, e)}}

    # --- try to obtain a concrete failing input for each violation (never decides; only informs) ---
    replay_paths = []
    if violations:
        import cex
        os.makedirs(os.path.join(ROOT, "build", "replay"), exist_ok=True)
        groups = {}
        for v in violations:
            groups.setdefault(v["region"], []).append(v)
        for region, vs in groups.items():
            path = os.path.join(ROOT, "build", "replay", "%s_%s.json" % (prop, re.sub(r"[^A-Za-z0-9_]+", "_", region)))
            found = None
            try:
                found = cex.search(prop, region, seed, tier)
            except Exception as e:  # the search is best effort
                found = {"error": "%s: %s" % (type(e).__name__, e)}
            doc = {
                "property": prop,
                "function": region,
                "repo_location": vs[0].get("repo_loc"),
                "failed_obligations": [{"obligation": obligation_id(v), "verifier_message": v["msg"],
                                        "verifier_output": v["detail"]} for v in vs],
                "verifier": "verus",
                "failing_input": found if (found and found.get("input") is not None) else None,
                "search_note": (found or {}).get("note") or (found or {}).get("error"),
            }
            json.dump(doc, open(path, "w"), indent=1, ensure_ascii=False)
            replay_paths.append((path, doc))

    # --- evidence ---
    obligations = sum(r.get("verified", 0) + r.get("errors", 0) for r in results.values())
    discharged = sum(r.get("verified", 0) for r in results.values())
    fns = []
    stub_uses = []
    assumptions = []
    rewrites = []
    samples = []
    clause_tot = {}
    canary_tot = {"expected": 0, "rejected": 0}
    under_contract = []
    cmds = []
    for name, r in sorted(results.items()):
        for f in r.get("functions", []):
            fns.append({"unit": name, **f})
        for h in r.get("assumptions", []):
            if h.get("region_mode") in ("stub", "lemma_stub"):
                stub_uses.append((name, h["region"]))
                continue
            assumptions.append("%s: %s %s%s" % (name, h["kind"], h["item"] or "?",
                                                 (" (region %s, %s)" % (h["region"], h["region_mode"])) if h["region"] else ""))
        info = r.get("info", {})
        rewrites += [dict(unit=name, **x) for x in info.get("rewrites", [])]
        for reg in info.get("regions", []):
            if reg.get("mode") == "verify":
                under_contract.append("%s: %s (%s:%d-%d)%s" % ((name, reg["name"]) + tuple(reg["loc"]) +
                                                             (" [differs from contract baseline]" if reg.get("changed") else "",)))
        for k, c in (r.get("clauses") or {}).items():
            clause_tot[k] = clause_tot.get(k, 0) + c
        cn = r.get("canaries") or {}
        canary_tot["expected"] += cn.get("expected", 0)
        canary_tot["rejected"] += cn.get("rejected", 0)
        if "verus" in r:
            cmds.append(r["verus"]["cmd"])
        per = r.get("clauses_per_fn") or {}
        for fn, c in list(per.items())[:3]:
            samples.append({"unit": name, "function": fn, "woven_clauses": c})
    # callee contracts imported as external_body stubs: they are assumptions unless proved in a unit of this run
    proved = set()
    for name, r in results.items():
        for reg in r.get("info", {}).get("regions", []):
            if reg.get("mode") in ("verify", "lemma"):
                proved.add(reg["name"])
    unproved = sorted({reg for (_, reg) in stub_uses if reg not in proved})
    assumptions.append("%d uses of callee/lemma contracts as external_body stubs across units; %d distinct contracts, %d of them proved in a unit of this run" % (
        len(stub_uses), len({reg for _, reg in stub_uses}), len({reg for _, reg in stub_uses}) - len(unproved)))
    for reg in unproved:
        assumptions.append("ASSUMED CONTRACT (stub not proved in this run): %s" % reg)
    lvl = LEVELS.get(prop, {"level": "proof"})
    smt_total = sum(f["smt_s"] for f in fns)
    cov = {
        "obligations": obligations,
        "discharged": discharged,
        "checker_cmd": " ; ".join(cmds) if cmds else "verus <unit>.rs --output-json --time",
        "trusted_base": lvl.get("trusted_base", []),
        "explanation": lvl.get("explanation", ""),
        "backend": "Verus 0.2026.09.13 / Z3 (one SMT query per function; obligations counted per function query)",
        "functions_under_contract": under_contract,
        "contract_clauses_woven": clause_tot,
        "vacuity_canaries": canary_tot,
        "solver_seconds_total": round(smt_total, 3),
        "solver_seconds_per_function": sorted(
            [{"f": f["function"], "s": round(f["smt_s"], 3), "rlimit": f["rlimit"], "ok": f["success"]} for f in fns],
            key=lambda x: -x["s"])[:40],
        "rewrites_applied": rewrites,
        "samples": samples or [{"note": "no verified region in this run"}],
        "undecided": [{k: (v if not isinstance(v, str) else v[:600]) for k, v in u.items() if k != "detail"} for u in undecided][:20],
        "known_findings_seen": [k.get("what") for k, _ in known_hits],
        "not_covered": lvl.get("not_covered", []),
    }
    cov.update(extra)
    if tier == "thorough":
        cov["rlimit_stability"] = {name: r.get("stability") for name, r in sorted(results.items()) if r.get("stability")}
    ev = {
        "property_id": prop,
        "tier": tier,
        "seed": seed,
        "level": lvl.get("level", "proof"),
        "coverage": cov,
        "assumptions": sorted(set(assumptions)) + lvl.get("assumptions", []),
        "wall_s": round(wall, 2),
        "violations": len(violations),
    }
    if not no_evidence:
        os.makedirs(os.path.join(ROOT, "evidence"), exist_ok=True)
        json.dump(ev, open(os.path.join(ROOT, "evidence", prop + ".json"), "w"), indent=1, ensure_ascii=False)

    # --- verdict ---
    seen_known = set()
    for k, v in known_hits:
        key = (k.get("function"), k.get("clause_contains"), k.get("what"))
        if key in seen_known:
            continue
        seen_known.add(key)
        print("KNOWN-FINDING: property=%s %s [%s: %s, %d failing exit(s)]" % (
            prop, k.get("what", ""), v["region"], v["msg"], sum(1 for kk, _ in known_hits if kk is k)))
    print("%s tier=%s units=%s obligations=%d discharged=%d violations=%d undecided=%d wall=%.1fs" % (
        prop, tier, ",".join(sorted(results)), obligations, discharged, len(violations), len(undecided), wall))
    if violations:
        for path, doc in replay_paths:
            for fo in doc["failed_obligations"]:
                print("  failed obligation %s at %s: %s" % (fo["obligation"], doc["repo_location"], fo["verifier_message"]))
            tail = "" if doc["failing_input"] else " no-failing-input-found"
            if doc["failing_input"]:
                print("  failing input (replayed on the real code): %s" % json.dumps(doc["failing_input"], ensure_ascii=False)[:600])
            print("VIOLATION property=%s replay=%s%s" % (prop, path, tail))
        return 1
    if undecided:
        for u in undecided[:10]:
            print("UNDECIDED unit=%s: %s %s" % (u.get("unit"), u.get("why", ""), (u.get("msg") or "")))
            if u.get("stderr"):
                print(u["stderr"][-1500:])
        # an undecided run may still be upgraded by a confirmed concrete failure on the real code
        try:
            import cex
            found = cex.search_property(prop, seed, tier)
        except Exception as e:
            found = None
        if found and found.get("input") is not None:
            os.makedirs(os.path.join(ROOT, "build", "replay"), exist_ok=True)
            path = os.path.join(ROOT, "build", "replay", "%s_confirmed.json" % prop)
            json.dump({"property": prop, "function": found.get("function"), "failed_obligations": [
                {"obligation": "undecided-by-verus; concrete failure confirmed on the real code",
                 "verifier_message": "; ".join((u.get("why", "") + " " + (u.get("msg") or "")) for u in undecided[:5])}],
                "verifier": "verus (undecided) + replay oracle", "failing_input": found}, open(path, "w"), indent=1, ensure_ascii=False)
            print("  failing input (replayed on the real code): %s" % json.dumps(found, ensure_ascii=False)[:600])
            print("VIOLATION property=%s replay=%s" % (prop, path))
            return 1
        return 2
    return 0
