#!/bin/sh
# Offline setup: nothing to download. Builds the replay driver against /repo (used only to replay failing inputs).
set -e
cd "$(dirname "$0")/.."
mkdir -p build/gen build/replay evidence
command -v verus >/dev/null || { echo "verus not on PATH"; exit 1; }
python3 -c "import sys; sys.path.insert(0,'engine'); import weave, check" 
if [ -d replay ]; then
  (cd replay && cp -f /repo/Cargo.lock . 2>/dev/null || true; CARGO_NET_OFFLINE=true cargo build --release --offline --target-dir ../build/replay-target >/dev/null 2>&1 || echo "note: replay driver not built (only needed to replay failing inputs)")
fi
echo setup-ok
