"""Thorough tier: bounded Kani/CBMC harnesses over the public API of the current /repo tree.
Bounded (one 32-bit limb per operand / small rationals); reported under coverage.kani_bounded; never proof."""
import concurrent.futures as cf
import os
import re
import shutil
import subprocess
import time

HERE = os.path.dirname(os.path.abspath(__file__))
ROOT = os.path.dirname(HERE)
CRATE = os.path.join(ROOT, "kani")

HARNESSES = {
    "C05": ["big_add_1limb", "big_sub_1limb", "big_mul_1limb", "big_cmp_eq_neg_1limb", "big_new_isize"],
    "C06": ["big_add_1limb", "big_mul_1limb"],
    "C07": ["big_cmp_eq_neg_1limb"],
    "C09": ["big_mul_1limb", "big_add_1limb"],
    "C01": ["big_add_1limb"], "C02": ["big_add_1limb"], "C10": ["big_add_1limb"], "C14": ["big_new_isize"],
}
BOUNDS = {
    "big_add_1limb": "operands: one fully symbolic 32-bit limb + sign each; unwind 10",
    "big_sub_1limb": "operands: one fully symbolic 32-bit limb + sign each; unwind 10",
    "big_mul_1limb": "operands: one fully symbolic 32-bit limb + sign each; unwind 10",
    "big_cmp_eq_neg_1limb": "operands: one fully symbolic 32-bit limb + sign each; unwind 10",
    "big_new_isize": "every isize (loop-free up to normalisation; unwind 10): complete for BigNum::new",
    "num_cmp_small": "numerators in -7..7, denominators 1..3; unwind 40",
}


def run_one(h, timeout):
    env = dict(os.environ, CARGO_NET_OFFLINE="true")
    t0 = time.time()
    cmd = "ulimit -v 16000000; exec cargo kani --harness %s" % h
    try:
        p = subprocess.run(["bash", "-c", cmd], cwd=CRATE, env=env, stdout=subprocess.PIPE, stderr=subprocess.STDOUT,
                           text=True, timeout=timeout)
        out = p.stdout
        failed = [f for f in re.findall(r"Failed Checks: (.*)", out) if "unwinding assertion" not in f][:5]
        if "VERIFICATION:- SUCCESSFUL" in out:
            st = "successful"
        elif "out of memory" in out or ("unwinding assertion" in out and not failed):
            st = "no-result (resource limit or unwinding bound reached)"
        elif "VERIFICATION:- FAILED" in out and failed:
            st = "FAILED"
        else:
            st = "no-result (rc=%d)" % p.returncode
    except subprocess.TimeoutExpired:
        st, failed = "timeout after %ds" % timeout, []
    return {"harness": h, "status": st, "bound": BOUNDS.get(h, ""), "wall_s": round(time.time() - t0, 1),
            "failed_checks": failed}


def run(prop, seed):
    hs = HARNESSES.get(prop, [])
    if not hs or not shutil.which("cargo-kani"):
        return {"kani_bounded": {"note": "no harness / cargo-kani not found"}}
    lock = os.path.join(os.environ.get("VERIF_REPO", "/repo"), "Cargo.lock")
    try:
        shutil.copy(lock, os.path.join(CRATE, "Cargo.lock"))
    except OSError:
        pass
    # build once sequentially (first harness), then the rest in parallel
    res = [run_one(hs[0], 1200)]
    with cf.ThreadPoolExecutor(max_workers=3) as ex:
        res += list(ex.map(lambda h: run_one(h, 1200), hs[1:]))
    return {"kani_bounded": {"label": "BOUNDED second opinion (never counted as proof)", "results": res,
                             "cmd": "cd /verif/kani && CARGO_NET_OFFLINE=true cargo kani --harness <name>"}}
