"""Locate items in /repo sources and apply the closed list of rewrites (DESIGN §1.1)."""
import os
from rlex import lex, match_close, Tok, LexError


class AnchorLost(Exception):
    """An item or rewrite pattern expected by a contract is not present in the repo source."""


_cache = {}


def file_tokens(repo, rel):
    key = (repo, rel)
    if key not in _cache:
        path = os.path.join(repo, rel)
        try:
            src = open(path, encoding="utf-8").read()
        except OSError as e:
            raise AnchorLost("cannot read %s: %s" % (path, e))
        try:
            _cache[key] = (src, lex(src))
        except LexError as e:
            raise AnchorLost("cannot tokenize %s: %s" % (path, e))
    return _cache[key]


def norm(s):
    return " ".join(t.text for t in lex(s))


def line_of(src, pos):
    return src.count("\n", 0, pos) + 1


def find_container(toks, header):
    """header: e.g. 'impl BigNum', 'impl PartialOrd for BigNum', 'trait State'. Returns (lo, hi) token
    index range of the interior of the container's brace group."""
    want = norm(header).split(" ")
    depth = 0
    i = 0
    n = len(toks)
    while i < n:
        t = toks[i]
        if t.kind == "punct" and t.text in "([{":
            depth += 1
        elif t.kind == "punct" and t.text in ")]}":
            depth -= 1
        elif depth == 0 and t.kind == "ident" and t.text in ("impl", "trait", "mod"):
            # header tokens up to '{'
            j = i
            while j < n and not (toks[j].kind == "punct" and toks[j].text in ("{", ";")):
                j += 1
            got = [x.text for x in toks[i:j]]
            if got and got[0] == "pub":
                got = got[1:]
            if got == want and j < n and toks[j].text == "{":
                k = match_close(toks, j)
                return (j + 1, k)
        i += 1
    raise AnchorLost("container `%s` not found" % header)


def find_fn(toks, lo, hi, name):
    """Find `fn name` at depth 0 within toks[lo:hi]; return (start, body_open, body_close) token indices.
    start includes a leading `pub` / `pub(crate)`."""
    depth = 0
    i = lo
    while i < hi:
        t = toks[i]
        if t.kind == "punct" and t.text in "([{":
            depth += 1
        elif t.kind == "punct" and t.text in ")]}":
            depth -= 1
        elif depth == 0 and t.kind == "ident" and t.text == "fn" and i + 1 < hi and toks[i + 1].text == name:
            start = i
            if i - 1 >= lo and toks[i - 1].text == "pub":
                start = i - 1
            elif i - 1 >= lo and toks[i - 1].text == ")" :
                # pub(crate)
                k = i - 1
                while k > lo and toks[k].text != "(":
                    k -= 1
                if k - 1 >= lo and toks[k - 1].text == "pub":
                    start = k - 1
            # body: first '{' at paren depth 0 after the parameter list
            j = i
            pd = 0
            while j < hi:
                x = toks[j]
                if x.kind == "punct" and x.text in "([":
                    pd += 1
                elif x.kind == "punct" and x.text in ")]":
                    pd -= 1
                elif pd == 0 and x.kind == "punct" and x.text == "{":
                    break
                elif pd == 0 and x.kind == "punct" and x.text == ";":
                    raise AnchorLost("fn %s has no body" % name)
                j += 1
            if j >= hi:
                raise AnchorLost("fn %s: body not found" % name)
            k = match_close(toks, j)
            return (start, j, k)
        i += 1
    raise AnchorLost("fn `%s` not found" % name)


def find_struct(toks, kind, name):
    """kind: 'struct' | 'enum'. Return (start,end) token range [start, end] inclusive covering
    `pub struct Name {...}` (attributes excluded)."""
    depth = 0
    for i, t in enumerate(toks):
        if t.kind == "punct" and t.text in "([{":
            depth += 1
        elif t.kind == "punct" and t.text in ")]}":
            depth -= 1
        elif depth == 0 and t.kind == "ident" and t.text == kind and toks[i + 1].text == name:
            start = i - 1 if i > 0 and toks[i - 1].text == "pub" else i
            j = i
            while toks[j].text != "{":
                j += 1
            return (start, match_close(toks, j))
    raise AnchorLost("%s `%s` not found" % (kind, name))


def derive_of(toks, start):
    """Return the list of derive names in the attribute immediately before token index start, or []."""
    # pattern: # [ derive ( A , B ) ]
    j = start - 1
    if j >= 0 and toks[j].text == "]":
        k = j
        depth = 0
        while k >= 0:
            if toks[k].text == "]":
                depth += 1
            elif toks[k].text == "[":
                depth -= 1
                if depth == 0:
                    break
            k -= 1
        if k >= 1 and toks[k - 1].text == "#" and toks[k + 1].text == "derive":
            return [t.text for t in toks[k + 3:j - 1] if t.kind == "ident"]
    return []


# ---------------------------------------------------------------------------------------------
# rewrites on token-text lists.  Each returns (new_list, count).
# ---------------------------------------------------------------------------------------------

def T(s):
    return [t.text for t in lex(s)]


def sig_body_open(tl):
    """index of the body-opening brace of a fn token list (first `{` at paren depth 0 after `fn`)."""
    pd = 0
    seen = False
    for i, x in enumerate(tl):
        if x == "fn":
            seen = True
        if x in ("(", "["):
            pd += 1
        elif x in (")", "]"):
            pd -= 1
        elif x == "{" and pd == 0 and seen:
            return i
    raise AnchorLost("no body brace")


def rw_named_return(tl, body_open, name):
    """`fn f(..) -> TYPE [where ..] {`  =>  `fn f(..) -> ( name : TYPE ) [where ..] {`. A function without
    a return type is left alone (count 0)."""
    i = tl.index("fn")
    while tl[i] != "(":
        i += 1
    j = _close(tl, i)
    if tl[j + 1] != "->":
        return tl, 0, body_open
    arrow = j + 1
    end = body_open
    pd = 0
    for k in range(arrow + 1, body_open):
        if tl[k] in ("(", "["):
            pd += 1
        elif tl[k] in (")", "]"):
            pd -= 1
        elif tl[k] == "where" and pd == 0:
            end = k
            break
    new = tl[:arrow + 1] + ["(", name, ":"] + tl[arrow + 1:end] + [")"] + tl[end:]
    return new, 1, body_open + 4


def rw_self_rename(tl, out_type):
    """Lifting of an operator-trait method to a free function: self -> self_, Self::Output -> out_type."""
    out = []
    i = 0
    cnt = 0
    while i < len(tl):
        if tl[i] == "Self" and tl[i + 1:i + 3] == ["::", "Output"]:
            out.append(out_type)
            i += 3
            cnt += 1
        elif tl[i] == "Self":
            out.append(out_type)
            i += 1
            cnt += 1
        elif tl[i] == "self":
            out.append("self_")
            i += 1
            cnt += 1
        else:
            out.append(tl[i])
            i += 1
    return out, cnt


def rw_break_value(tl):
    """R5: `break EXPR` (tail loop) => `return EXPR`."""
    out = list(tl)
    cnt = 0
    for i, x in enumerate(out):
        if x == "break" and i + 1 < len(out) and out[i + 1] not in (";", "}"):
            out[i] = "return"
            cnt += 1
    return out, cnt


def rw_narrow_collect(tl):
    """R3: `X . iter ( ) . map ( | & x | x as u32 ) . collect ( )` => `narrow_u64 ( & X )`."""
    pat = T(".iter().map(|&x| x as u32).collect()")
    out = []
    i = 0
    cnt = 0
    while i < len(tl):
        if tl[i + 1:i + 1 + len(pat)] == pat and tl[i].isidentifier():
            out += ["narrow_u64", "(", "&", tl[i], ")"]
            i += 1 + len(pat)
            cnt += 1
        else:
            out.append(tl[i])
            i += 1
    return out, cnt


def _close(tl, i):
    depth = 0
    pairs = {"(": ")", "[": "]", "{": "}"}
    for j in range(i, len(tl)):
        if tl[j] in pairs:
            depth += 1
        elif tl[j] in (")", "]", "}"):
            depth -= 1
            if depth == 0:
                return j
    raise AnchorLost("unbalanced brackets in rewrite")


def rw_for_continue(tl):
    """R2: `for P in E { if C { continue ; } REST }` => `for P in E { if ! ( C ) { REST } }`."""
    out = list(tl)
    cnt = 0
    i = 0
    while i < len(out):
        if out[i] == "for":
            # find body '{' at depth 0
            j = i + 1
            pd = 0
            while j < len(out):
                if out[j] in ("(", "["):
                    pd += 1
                elif out[j] in (")", "]"):
                    pd -= 1
                elif out[j] == "{" and pd == 0:
                    break
                j += 1
            if j < len(out) and out[j + 1] == "if":
                # condition up to '{'
                k = j + 2
                pd = 0
                while k < len(out):
                    if out[k] in ("(", "["):
                        pd += 1
                    elif out[k] in (")", "]"):
                        pd -= 1
                    elif out[k] == "{" and pd == 0:
                        break
                    k += 1
                if out[k + 1:k + 4] == ["continue", ";", "}"] and (k + 4 >= len(out) or out[k + 4] != "else"):
                    body_close = _close(out, j)
                    cond = out[j + 2:k]
                    rest = out[k + 4:body_close]
                    new = out[:j + 1] + ["if", "!", "("] + cond + [")", "{"] + rest + ["}"] + out[body_close:]
                    out = new
                    cnt += 1
        i += 1
    return out, cnt


def rw_chars_enumerate(tl):
    """R6: `for ( i , c ) in S . chars ( ) . enumerate ( ) { BODY }` =>
    `let cs = chars_of ( & S ) ; let mut k_ = 0 ; while k_ < cs . len ( ) { let i = k_ ; let c = cs [ k_ ] ; k_ += 1 ; BODY }`"""
    out = list(tl)
    cnt = 0
    i = 0
    pat_tail = T(".chars().enumerate()")
    while i < len(out):
        if out[i] == "for" and out[i + 1] == "(" and out[i + 3] == "," and out[i + 5] == ")" and out[i + 6] == "in" \
                and out[i + 8:i + 8 + len(pat_tail)] == pat_tail and out[i + 8 + len(pat_tail)] == "{":
            iv, cv, sv = out[i + 2], out[i + 4], out[i + 7]
            b = i + 8 + len(pat_tail)
            head = T("let cs_ = chars_of(&%s); let mut k_ = 0; while k_ < cs_.len()" % sv)
            intro = T("let %s = k_; let %s = cs_[k_]; k_ += 1;" % (iv, cv))
            out = out[:i] + head + ["{"] + intro + out[b + 1:]
            cnt += 1
        i += 1
    return out, cnt


def rw_rev_collect(tl):
    """R7: `X . chars ( ) . rev ( ) . collect ( )` => `rev_string ( & X )`."""
    pat = T(".chars().rev().collect()")
    out = []
    i = 0
    cnt = 0
    while i < len(tl):
        if tl[i + 1:i + 1 + len(pat)] == pat and tl[i].isidentifier():
            out += ["rev_string", "(", "&", tl[i], ")"]
            i += 1 + len(pat)
            cnt += 1
        else:
            out.append(tl[i])
            i += 1
    return out, cnt


def rw_range_contains(tl):
    """R8: `( 'a' ..= 'b' ) . contains ( & X )` on *char literals* => `char_in ( 'a' , 'b' , X )`.
    (vstd specifies RangeInclusive::contains for integer ranges only.)"""
    out = []
    i = 0
    cnt = 0
    while i < len(tl):
        if (tl[i] == "(" and i + 11 < len(tl) and tl[i + 1].startswith("'") and tl[i + 2] == "..=" and tl[i + 3].startswith("'")
                and tl[i + 4:i + 9] == [")", ".", "contains", "(", "&"] and tl[i + 10] == ")"):
            out += ["char_in", "(", tl[i + 1], ",", tl[i + 3], ",", tl[i + 9], ")"]
            i += 11
            cnt += 1
        else:
            out.append(tl[i])
            i += 1
    return out, cnt


def rw_patterns(tl, rules):
    """Generic exact-pattern rewriting. rules: list of (pattern, replacement) as source strings; in a pattern
    $I matches one identifier, $C one char literal, $S one string literal; the replacement may use them."""
    comp = [(T(p.replace("$", "__W_")), T(r.replace("$", "__W_"))) for p, r in rules]
    out = []
    i = 0
    cnt = 0
    while i < len(tl):
        hit = False
        for pat, rep in comp:
            if i + len(pat) > len(tl):
                continue
            env = {}
            ok = True
            for k, p in enumerate(pat):
                t = tl[i + k]
                if p.startswith("__W_"):
                    kind = p[4]
                    good = (kind == "I" and (t[0].isalpha() or t[0] == "_")) or (kind == "C" and t.startswith("'")) \
                        or (kind == "S" and t.startswith('"'))
                    if not good or (p in env and env[p] != t):
                        ok = False
                        break
                    env[p] = t
                elif p != t:
                    ok = False
                    break
            if ok:
                out += [env.get(r, r) for r in rep]
                i += len(pat)
                cnt += 1
                hit = True
                break
        if not hit:
            out.append(tl[i])
            i += 1
    return out, cnt


STR_RULES = [
    ("$I == * $S", "str_is(&$I, $S)"),
    ("$I.starts_with($C)", "str_starts_with(&$I, $C)"),
    ("$I[1..].to_string()", "str_skip1(&$I)"),
    ("$I.split($C).map(|x| x.to_string()).collect::<Vec<_>>()", "str_split(&$I, $C)"),
    ("$I.split($C).map(String::from).collect()", "str_split(&$I, $C)"),
]


def rw_str_plumbing(tl):
    """R9: std string plumbing of Num::from_string replaced by trusted helpers with sequence-level specs."""
    return rw_patterns(tl, STR_RULES)


def rw_io(tl):
    total = 0
    for _ in range(4):
        tl, c = _rw_io_once(tl)
        total += c
        if c == 0:
            break
    return tl, total


def _rw_io_once(tl):
    tl, c0 = rw_patterns(tl, [("self.read_line(&mut $I)?", "stdin_read_line(self, &mut $I)?")])
    tl, c1 = _rw_io_once2(tl)
    return tl, c0 + c1


def _rw_io_once2(tl):
    """R10: I/O statements of execute.rs replaced by calls of trusted helpers:
       write!(W, "{}", E)  => io_write_display(W, E)
       W.flush().unwrap()  => io_flush(W)
       process::exit(N)    => proc_exit(N)
       io::read_line_from  => io_read_line_from ;  ext::num_to_unicode => ext_num_to_unicode"""
    out = []
    i = 0
    cnt = 0
    n = len(tl)
    while i < n:
        if tl[i] == "write" and i + 2 < n and tl[i + 1] == "!" and tl[i + 2] == "(":
            j = _close(tl, i + 2)
            inner = tl[i + 3:j]
            # split at top-level commas
            parts, cur, d = [], [], 0
            for t in inner:
                if t in ("(", "[", "{"):
                    d += 1
                elif t in (")", "]", "}"):
                    d -= 1
                if t == "," and d == 0:
                    parts.append(cur)
                    cur = []
                else:
                    cur.append(t)
            parts.append(cur)
            if len(parts) == 3 and parts[1] == ['"{}"']:
                out += ["io_write_display", "("] + parts[0] + [","] + parts[2] + [")"]
                i = j + 1
                cnt += 1
                continue
        if tl[i + 1:i + 8] == [".", "flush", "(", ")", ".", "unwrap", "("] and i + 8 < n and tl[i + 8] == ")":
            out += ["io_flush", "(", tl[i], ")"]
            i += 9
            cnt += 1
            continue
        if tl[i:i + 4] == ["process", "::", "exit", "("]:
            j = _close(tl, i + 3)
            # the exiting pop routine has the two writers in scope: pass them so that the helper can require that
            # both were flushed (delivered) before the process ends
            if "out" in tl and "err" in tl and "idx" in tl:
                out += ["proc_exit_flushed", "("] + tl[i + 4:j] + [",", "out", ",", "err", ",", "idx", ")"]
            else:
                out += ["proc_exit", "("] + tl[i + 4:j] + [")"]
            i = j + 1
            cnt += 1
            continue
        if tl[i:i + 3] == ["io", "::", "read_line_from"]:
            out.append("io_read_line_from")
            i += 3
            cnt += 1
            continue
        if tl[i:i + 6] == ["std", "::", "char", "::", "from_u32", "("]:
            j = _close(tl, i + 5)
            if tl[j + 1:j + 4] == [".", "ok_or_else", "("]:
                k = _close(tl, j + 3)
                out += ["char_from_u32_or_err", "("] + tl[i + 6:j] + [")"]
                i = k + 1
                cnt += 1
                continue
        if tl[i:i + 4] == ["Error", "::", "new", "("]:
            j = _close(tl, i + 3)
            out += ["error_any", "(", ")"]
            i = j + 1
            cnt += 1
            continue
        if tl[i:i + 3] == ["ext", "::", "num_to_unicode"]:
            out.append("ext_num_to_unicode")
            i += 3
            cnt += 1
            continue
        out.append(tl[i])
        i += 1
    return out, cnt


def rw_fmt(tl):
    """R12: `write!` inside `impl fmt::Display`:
         write!(f, "lit")           => fmt_write0(f, "lit")
         write!(f, "{}", A)         => fmt_write1(f, &(A))
         write!(f, "{}SEP{}", A, B) => fmt_write2(f, &(A), "SEP", &(B))"""
    out = []
    i = 0
    cnt = 0
    n = len(tl)
    while i < n:
        if tl[i] == "write" and i + 2 < n and tl[i + 1] == "!" and tl[i + 2] == "(":
            j = _close(tl, i + 2)
            inner = tl[i + 3:j]
            parts, cur, d = [], [], 0
            for t in inner:
                if t in ("(", "[", "{"):
                    d += 1
                elif t in (")", "]", "}"):
                    d -= 1
                if t == "," and d == 0:
                    parts.append(cur)
                    cur = []
                else:
                    cur.append(t)
            parts.append(cur)
            fs = parts[1][0] if len(parts) >= 2 and len(parts[1]) == 1 and parts[1][0].startswith('"') else None
            if fs is not None:
                body = fs[1:-1]
                if len(parts) == 2 and "{" not in body:
                    out += ["fmt_write0", "("] + parts[0] + [",", fs, ")"]
                    i = j + 1
                    cnt += 1
                    continue
                if len(parts) == 3 and body == "{}":
                    out += ["fmt_write1", "("] + parts[0] + [",", "&", "("] + parts[2] + [")", ")"]
                    i = j + 1
                    cnt += 1
                    continue
                if len(parts) == 4 and body.count("{}") == 2 and body.startswith("{}") and body.endswith("{}"):
                    sep = '"' + body[2:-2] + '"'
                    out += ["fmt_write2", "("] + parts[0] + [",", "&", "("] + parts[2] + [")", ",", sep, ",", "&", "("] + parts[3] + [")", ")"]
                    i = j + 1
                    cnt += 1
                    continue
        out.append(tl[i])
        i += 1
    return out, cnt


def rw_chars_rev(tl):
    """R6b: `for C in S . chars ( ) . rev ( ) { BODY }` =>
    `let cs_ = chars_of(&S); let mut k_ = cs_.len(); while k_ > 0 { k_ -= 1; let C = cs_[k_]; BODY }`"""
    out = list(tl)
    cnt = 0
    i = 0
    pat = T(".chars().rev()")
    while i < len(out):
        if out[i] == "for" and out[i + 2] == "in" and out[i + 4:i + 4 + len(pat)] == pat and out[i + 4 + len(pat)] == "{":
            cv, sv = out[i + 1], out[i + 3]
            b = i + 4 + len(pat)
            head = T("let cs_ = chars_of(&%s); let mut k_ = cs_.len(); while k_ > 0" % sv)
            intro = T("k_ -= 1; let %s = cs_[k_];" % cv)
            out = out[:i] + head + ["{"] + intro + out[b + 1:]
            cnt += 1
        i += 1
    return out, cnt


def rw_optlib(tl):
    """R13: library idioms of `optimize` replaced by calls of trusted helpers with sequence / map level specs
    (each helper is an external_body stub listed in the evidence):
       M.entry(K).or_insert(V)                          => hm_entry_or_insert(&mut M, K, V)
       M.entry(K).or_insert_with(Vec::new)              => hm_entry_or_new(&mut M, K)
       V.sort_unstable()                                => vec_sort_unstable(&mut V)
       io::CustomWriter::new(|_| Result::Ok(()))        => custom_writer_null()
       &mut stdin()                                     => &mut io_stdin()
       V[I..].to_vec()                                  => vec_suffix_to_vec(&V, I)
       W.write_all(X.to_string()?.as_bytes())?          => io_write_str(&mut W, X.to_string()?)?
       R.extend(S.chars().map(|x| Num::from_num(x as isize)))  => vec_extend_chars_num(R, S)
       for (I, X) in V.iter().enumerate() { B }         => let mut I__k: usize = 0; while I__k < V.len() {
                                                               let I = I__k; let X = &V[I__k]; I__k += 1; B }"""
    tl, cnt = rw_patterns(tl, [
        ("$I.sort_unstable()", "vec_sort_unstable(&mut $I)"),
        ("io::CustomWriter::new(|_| Result::Ok(()))", "custom_writer_null()"),
        ("&mut stdin()", "&mut io_stdin()"),
        ("$I[$I2..].to_vec()", "vec_suffix_to_vec(&$I, $I2)"),
        ("$I.write_all($I2.to_string()?.as_bytes())?", "io_write_str(&mut $I, $I2.to_string()?)?"),
    ])
    out = []
    i = 0
    n = len(tl)
    while i < n:
        # M.entry(K).or_insert(V)   /   M.entry(K).or_insert_with(Vec::new)      (M: identifier or field path a.b)
        if tl[i:i + 3] == [".", "entry", "("] and out and (out[-1][0].isalpha() or out[-1][0] == "_"):
            j = _close(tl, i + 2)
            b = len(out) - 1
            while b >= 2 and out[b - 1] == "." and (out[b - 2][0].isalpha() or out[b - 2][0] == "_"):
                b -= 2
            recv = out[b:]
            if tl[j + 1:j + 4] == [".", "or_insert", "("]:
                k = _close(tl, j + 3)
                out = out[:b] + ["hm_entry_or_insert", "(", "&", "mut"] + recv + [","] + tl[i + 3:j] + [","] + tl[j + 4:k] + [")"]
                i = k + 1
                cnt += 1
                continue
            if tl[j + 1:j + 8] == [".", "or_insert_with", "(", "Vec", "::", "new", ")"]:
                out = out[:b] + ["hm_entry_or_new", "(", "&", "mut"] + recv + [","] + tl[i + 3:j] + [")"]
                i = j + 8
                cnt += 1
                continue
        # for (I, X) in V.iter().enumerate() {
        if tl[i] == "for" and tl[i + 1] == "(" and tl[i + 3] == "," and tl[i + 5:i + 7] == [")", "in"] and \
                tl[i + 8:i + 16] == [".", "iter", "(", ")", ".", "enumerate", "(", ")"] and tl[i + 16] == "{":
            iv, xv, vec = tl[i + 2], tl[i + 4], tl[i + 7]
            k = iv + "__k"
            out += T("let mut %s: usize = 0; while %s < %s.len() { let %s = %s; let %s = &%s[%s]; %s += 1;" % (k, k, vec, iv, k, xv, vec, k, k))
            i += 17
            cnt += 1
            continue
        # R.extend(S.chars().map(|x| Num::from_num(x as isize)))
        if tl[i:i + 3] == [".", "extend", "("]:
            j = _close(tl, i + 2)
            inner = tl[i + 3:j]
            tail = T(".chars().map(|x| Num::from_num(x as isize))")
            if len(inner) > len(tail) and inner[-len(tail):] == tail:
                # receiver: back to the start of the statement
                b = len(out)
                d = 0
                while b > 0:
                    t = out[b - 1]
                    if t in (")", "]"):
                        d += 1
                    elif t in ("(", "["):
                        d -= 1
                    if d == 0 and t in (";", "{", "}"):
                        break
                    b -= 1
                recv = out[b:]
                out = out[:b] + ["vec_extend_chars_num", "("] + recv + [","] + inner[:-len(tail)] + [")"]
                i = j + 1
                cnt += 1
                continue
        out.append(tl[i])
        i += 1
    return out, cnt


def rw_closure_call(tl, callee, newname, extra_args):
    """R11: `PATH :: callee ( A , B , | | BODY )` => `newname ( A , B , extra_args )`; returns also BODY tokens."""
    out = []
    i = 0
    cnt = 0
    body = None
    n = len(tl)
    while i < n:
        # match optional path prefix `x ::` before callee
        if tl[i] == callee and i + 1 < n and tl[i + 1] == "(":
            j = _close(tl, i + 1)
            inner = tl[i + 2:j]
            # find top-level `| |` closure start
            d = 0
            k = None
            for q, t in enumerate(inner):
                if t in ("(", "[", "{"):
                    d += 1
                elif t in (")", "]", "}"):
                    d -= 1
                elif t == "||" and d == 0:
                    k = q
                    break
            if k is not None and inner[k - 1] == ",":
                args = inner[:k - 1]
                body = inner[k + 1:]
                if body and body[0] == "{" and _close(body, 0) == len(body) - 1:
                    body = body[1:-1]
                # drop a path prefix already emitted (`area ::`)
                while len(out) >= 2 and out[-1] == "::":
                    out.pop()
                    out.pop()
                out += [newname, "("] + args + [","] + T(extra_args) + [")"]
                i = j + 1
                cnt += 1
                continue
        out.append(tl[i])
        i += 1
    return out, cnt, body


# --- R1: operators on references ------------------------------------------------------------

BINOPS = {"*", "/", "%", "+", "-", "<", ">", "<=", ">=", "==", "!=", "&&", "||", "^", "|", "&", "<<", ">>"}
MUL = {"*": "mul", "/": "div", "%": "rem"}
ADD = {"+": "add", "-": "sub"}
OPASSIGN = {"+=": "add", "-=": "sub", "*=": "mul", "/=": "div", "%=": "rem"}
SEPARATORS = {";", ",", "=", "=>", ":", "let", "if", "else", "match", "return", "while", "for", "in", "loop",
              "+=", "-=", "*=", "/=", "%=", "^=", "|=", "&=", "<<=", ">>=", "mut", "..", "..=", "break", "->"}


class _Grp:
    def __init__(self, open_, items, close):
        self.open, self.items, self.close = open_, items, close

    def flat(self):
        out = [self.open]
        for it in self.items:
            out += it.flat() if isinstance(it, _Grp) else [it]
        out.append(self.close)
        return out


def _tree(tl):
    stack = [[]]
    opens = []
    for x in tl:
        if x in ("(", "[", "{"):
            stack.append([])
            opens.append(x)
        elif x in (")", "]", "}"):
            items = stack.pop()
            o = opens.pop()
            stack[-1].append(_Grp(o, items, x))
        else:
            stack[-1].append(x)
    if len(stack) != 1:
        raise AnchorLost("unbalanced brackets in R1")
    return stack[0]


def _flat(items):
    out = []
    for it in items:
        out += it.flat() if isinstance(it, _Grp) else [it]
    return out


def _is_atom_start(x):
    if isinstance(x, _Grp):
        return x.open in ("(", "[")
    return x[0].isalnum() or x[0] in "_\"'" or x in ("self", "Self")


def _parse_operand(items, p):
    """Return (end, kind, toks) with kind in {'ref','neg_ref','other'} or None if no operand at p."""
    n = len(items)
    q = p
    neg = False
    isref = False
    if q < n and items[q] == "-":
        neg = True
        q += 1
    if q < n and items[q] == "&":
        isref = True
        q += 1
        if q < n and items[q] == "mut":
            return None
    elif q < n and items[q] == "&&":
        return None
    while q < n and items[q] in ("*", "!"):
        q += 1
    if q >= n or not _is_atom_start(items[q]) or (not isinstance(items[q], _Grp) and items[q] in SEPARATORS):
        return None
    q += 1
    # postfix
    while q < n:
        x = items[q]
        if x == "." and q + 1 < n and not isinstance(items[q + 1], _Grp):
            q += 2
        elif x == "::" and q + 1 < n:
            if items[q + 1] == "<":
                d = 0
                while q < n:
                    if items[q] == "<":
                        d += 1
                    elif items[q] == ">":
                        d -= 1
                        if d == 0:
                            break
                    elif items[q] == ">>":
                        d -= 2
                        if d <= 0:
                            break
                    q += 1
                q += 1
            else:
                q += 2
        elif isinstance(x, _Grp) and x.open in ("(", "["):
            q += 1
        elif x == "?":
            q += 1
        elif x == "as" and q + 1 < n:
            q += 2
        else:
            break
    kind = "other"
    if isref and neg:
        kind = "neg_ref"
    elif isref:
        kind = "ref"
    return (q, kind, items[p:q])


def _rewrite_level(items, ty, counter):
    # recurse
    items = [(_Grp(it.open, _rewrite_level(it.items, ty, counter), it.close) if isinstance(it, _Grp) else it)
             for it in items]
    out = []
    p = 0
    n = len(items)
    while p < n:
        if not isinstance(items[p], _Grp) and items[p] in OPASSIGN:
            r = _parse_operand(items, p + 1)
            if r is not None and r[1] == "ref" and r[0] < n and items[r[0]] == ";":
                # statement `LHS op= &RHS ;`  =>  `op_X_assign_T ( & mut LHS , &RHS ) ;`
                k = len(out)
                while k > 0 and not (isinstance(out[k - 1], _Grp) and out[k - 1].open == "{") and out[k - 1] != ";":
                    k -= 1
                lhs = out[k:]
                if lhs:
                    del out[k:]
                    counter[0] += 1
                    out += ["op_%s_assign_%s" % (OPASSIGN[items[p]], ty),
                            _Grp("(", ["&", "mut"] + lhs + [","] + list(r[2]), ")")]
                    p = r[0]
                    continue
        r = _parse_operand(items, p)
        if r is None:
            out.append(items[p])
            p += 1
            continue
        # parse chain operand (op operand)*
        chain = [r]
        ops = []
        q = r[0]
        while q < n and not isinstance(items[q], _Grp) and items[q] in BINOPS:
            r2 = _parse_operand(items, q + 1)
            if r2 is None:
                break
            ops.append(items[q])
            chain.append(r2)
            q = r2[0]
        end = chain[-1][0]
        operands = []
        for (_, kind, toks) in chain:
            if kind == "neg_ref":
                counter[0] += 1
                operands.append(("val", ["op_neg_" + ty, _Grp("(", toks[1:], ")")]))
            else:
                operands.append((kind, toks))
        # multiplicative pass
        for table in (MUL, ADD):
            i = 0
            while i < len(ops):
                if ops[i] in table and operands[i][0] == "ref":
                    a, b = operands[i][1], operands[i + 1][1]
                    counter[0] += 1
                    call = ["op_%s_%s" % (table[ops[i]], ty), _Grp("(", list(a) + [","] + list(b), ")")]
                    operands[i:i + 2] = [("val", call)]
                    del ops[i]
                else:
                    i += 1
        for i, (_, toks) in enumerate(operands):
            out += toks
            if i < len(ops):
                out.append(ops[i])
        p = end
    return out


def rw_ref_ops(tl, ty):
    """R1. tl: token texts of a function body (including braces). ty: 'BigNum' | 'Num'."""
    counter = [0]
    items = _rewrite_level(_tree(tl), ty, counter)
    return _flat(items), counter[0]
