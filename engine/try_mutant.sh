#!/bin/sh
# usage: try_mutant.sh <seeded dir> <PROP>...   applies the patch to /repo, runs the checks, reverts
d=$1; shift
cd /repo && git apply "$d/patch.diff" || { echo "APPLY FAILED $d"; exit 3; }
cd /verif
for p in "$@"; do
  ./check $p --no-evidence > /tmp/mut_out_$$.txt 2>&1; rc=$?
  echo "== $d $p rc=$rc"; grep -E "VIOLATION|failed obligation|UNDECIDED|failing input" /tmp/mut_out_$$.txt | cut -c1-300 | head -8
done
rm -f /tmp/mut_out_$$.txt
cd /repo && git checkout -- . 
